/-
Model of the cluster wire codec: fractal/protocol/message.go (type prefix,
dispatch) and fractal/protocol/protocol.go (the six messages ↔ wire structs),
plus the frame-size decision of fractal/connection/conn.go.

Core-only, total, executable.  `encoding/json`, `google/uuid` and the BLS
element parsers of chiapos are library code: JSON is modelled at the level of
the wire struct it produces (absent object = `none`, `null` list element =
`none`); uuid text and element validity are parameters (`Lib`).  Hex, the
64-hex hash form and big-int ↔ bytes are modelled concretely.
-/
import MassVerif.Generated.Facts

namespace MassVerif.Codec

abbrev Bytes := List Nat          -- every element < 256 (see `IsBytes`)
abbrev Text := List Char          -- a Go string, byte b ↦ Char.ofNat b

def IsBytes (b : Bytes) : Prop := ∀ x ∈ b, x < 256
instance (b : Bytes) : Decidable (IsBytes b) := by unfold IsBytes; infer_instance

/-! ### hex (encoding/hex) -/

def hexDigit (n : Nat) : Char :=
  if n < 10 then Char.ofNat (48 + n) else Char.ofNat (87 + n)

def hexVal (c : Char) : Option Nat :=
  if '0' ≤ c ∧ c ≤ '9' then some (c.toNat - 48)
  else if 'a' ≤ c ∧ c ≤ 'f' then some (c.toNat - 87)
  else if 'A' ≤ c ∧ c ≤ 'F' then some (c.toNat - 55)
  else none

/-- `hex.EncodeToString` -/
def hexEnc : Bytes → Text
  | [] => []
  | b :: r => hexDigit (b / 16) :: hexDigit (b % 16) :: hexEnc r

/-- `hex.DecodeString` (odd length or a non-hex character is an error) -/
def hexDec : Text → Option Bytes
  | [] => some []
  | [_] => none
  | a :: b :: r =>
    match hexVal a, hexVal b, hexDec r with
    | some x, some y, some t => some ((16 * x + y) :: t)
    | _, _, _ => none

/-- `pocutil.DecodeStringToHash`: exactly 64 characters of hex -/
def hashParse (s : Text) : Option Bytes :=
  if s.length ≠ 64 then none else hexDec s

/-! ### big integers (`big.Int.Bytes` / `SetBytes`) -/

/-- big-endian, minimal length; `0 ↦ []` -/
def natToBytes (n : Nat) : Bytes :=
  if h : n = 0 then [] else natToBytes (n / 256) ++ [n % 256]
decreasing_by omega

def bytesToNat (b : Bytes) : Nat := b.foldl (fun acc x => acc * 256 + x) 0

/-! ### library parameters -/

structure Lib where
  /-- `uuid.UUID.String` -/
  uuidText : Bytes → Text
  /-- `uuid.Parse` -/
  uuidParse : Text → Option Bytes
  /-- `chiapos.NewG1ElementFromBytes` succeeds -/
  g1Valid : Bytes → Bool
  /-- `chiapos.NewG2ElementFromBytes` succeeds -/
  g2Valid : Bytes → Bool

/-- elements are identified with their serialisation -/
def parseG1 (L : Lib) (s : Text) : Option Bytes :=
  match hexDec s with
  | some b => if L.g1Valid b then some b else none
  | none => none

def parseG2 (L : Lib) (s : Text) : Option Bytes :=
  match hexDec s with
  | some b => if L.g2Valid b then some b else none
  | none => none

/-! ### messages and wire structs -/

structure Quality where
  spaceId : Text
  publicKey : Bytes
  poolPublicKey : Bytes
  index : Nat
  kSize : Nat
  quality : Bytes
  plotId : Bytes
  slot : Nat
  hasError : Bool := false         -- `WorkSpaceQuality.Error` (not transmitted)
  deriving DecidableEq, Repr

structure Proof where
  spaceId : Text
  challenge : Bytes
  poolPublicKey : Bytes
  plotPublicKey : Bytes
  kSize : Nat
  proof : Bytes
  puzzleHash : Bytes               -- `ProofOfSpace.PuzzleHash` (not transmitted)
  publicKey : Bytes                -- `WorkSpaceProof.PublicKey`
  ordinal : Int                    -- `WorkSpaceProof.Ordinal`
  hasError : Bool := false         -- `WorkSpaceProof.Error` (not transmitted)
  deriving DecidableEq, Repr

inductive Msg
  | requestQualities (taskId challenge : Bytes) (parentTarget : Int) (parentSlot height : Nat)
  | reportQualities (taskId : Bytes) (qualities : List Quality)
  | requestProof (taskId : Bytes) (height : Nat) (spaceId : Text) (challenge : Bytes) (index : Nat)
  | reportProof (taskId : Bytes) (proof : Proof)
  | requestSignature (taskId : Bytes) (height : Nat) (spaceId : Text) (hash : Bytes)
  | reportSignature (taskId : Bytes) (spaceId : Text) (hash signature : Bytes)
  deriving DecidableEq, Repr

structure WQuality where
  spaceId : Text
  publicKey : Text
  poolPublicKey : Text
  index : Nat
  kSize : Nat
  quality : Text
  plotId : Text
  slot : Nat
  deriving DecidableEq, Repr

structure WProof where
  spaceId : Text
  challenge : Text
  poolPublicKey : Text
  plotPublicKey : Text
  kSize : Nat
  proof : Text
  deriving DecidableEq, Repr

/-- what `json.Unmarshal` can hand to `SetMsg` -/
inductive Wire
  | requestQualities (taskId challenge parentTarget : Text) (parentSlot height : Nat)
  | reportQualities (taskId : Text) (qualities : List (Option WQuality))
  | requestProof (taskId : Text) (height : Nat) (spaceId challenge : Text) (index : Nat)
  | reportProof (taskId : Text) (proof : Option WProof)
  | requestSignature (taskId : Text) (height : Nat) (spaceId hash : Text)
  | reportSignature (taskId spaceId hash signature : Text)
  deriving DecidableEq, Repr

def unknownOrdinal : Int := -1
def zeroHash : Bytes := List.replicate 32 0

/-! ### encoding: `Msg()` -/

def Quality.toWire (q : Quality) : WQuality :=
  { spaceId := q.spaceId, publicKey := hexEnc q.publicKey, poolPublicKey := hexEnc q.poolPublicKey,
    index := q.index, kSize := q.kSize, quality := hexEnc q.quality, plotId := hexEnc q.plotId,
    slot := q.slot }

def Proof.toWire (p : Proof) : WProof :=
  { spaceId := p.spaceId, challenge := hexEnc p.challenge, poolPublicKey := hexEnc p.poolPublicKey,
    plotPublicKey := hexEnc p.plotPublicKey, kSize := p.kSize, proof := hexEnc p.proof }

def toWire (L : Lib) : Msg → Wire
  | .requestQualities t c pt ps h =>
    .requestQualities (L.uuidText t) (hexEnc c) (hexEnc (natToBytes pt.natAbs)) ps h
  | .reportQualities t qs => .reportQualities (L.uuidText t) (qs.map (fun q => some q.toWire))
  | .requestProof t h s c i => .requestProof (L.uuidText t) h s (hexEnc c) i
  | .reportProof t p => .reportProof (L.uuidText t) (some p.toWire)
  | .requestSignature t h s hs => .requestSignature (L.uuidText t) h s (hexEnc hs)
  | .reportSignature t s hs sig => .reportSignature (L.uuidText t) s (hexEnc hs) (hexEnc sig)

/-! ### decoding: `SetMsg` -/

inductive Result
  | ok (m : Msg)
  | error
  | panic          -- a nil dereference inside the decoder
  deriving DecidableEq, Repr

/-- `Quality.SetMsg` / `NewQuality` (a `null` element is rejected) -/
def qualityFromWire (L : Lib) : Option WQuality → Option Quality
  | none => none
  | some w =>
    match parseG1 L w.publicKey, parseG1 L w.poolPublicKey, hexDec w.quality, hashParse w.plotId with
    | some pk, some ppk, some q, some pid =>
      some { spaceId := w.spaceId, publicKey := pk, poolPublicKey := ppk, index := w.index,
             kSize := w.kSize, quality := q, plotId := pid, slot := w.slot }
    | _, _, _, _ => none

/-- `Proof.SetMsg` / `NewProof` (an absent proof object is rejected) -/
def proofFromWire (L : Lib) : Option WProof → Option Proof
  | none => none
  | some w =>
    match hashParse w.challenge, parseG1 L w.poolPublicKey, parseG1 L w.plotPublicKey, hexDec w.proof with
    | some c, some ppk, some plk, some pr =>
      some { spaceId := w.spaceId, challenge := c, poolPublicKey := ppk, plotPublicKey := plk,
             kSize := w.kSize, proof := pr, puzzleHash := zeroHash, publicKey := plk,
             ordinal := unknownOrdinal }
    | _, _, _, _ => none

/-- the `for i := range msg.Qualities` loop: stops at the first error -/
def qualitiesFromWire (L : Lib) : List (Option WQuality) → Option (List Quality)
  | [] => some []
  | w :: ws =>
    match qualityFromWire L w with
    | none => none
    | some q =>
      match qualitiesFromWire L ws with
      | none => none
      | some qs => some (q :: qs)

def fromWire (L : Lib) : Wire → Result
  | .requestQualities t c pt ps h =>
    match L.uuidParse t, hashParse c, hexDec pt with
    | some t, some c, some ptb => .ok (.requestQualities t c (bytesToNat ptb) ps h)
    | _, _, _ => .error
  | .reportQualities t qs =>
    match L.uuidParse t with
    | none => .error
    | some t =>
      match qualitiesFromWire L qs with
      | some qs => .ok (.reportQualities t qs)
      | none => .error
  | .requestProof t h s c i =>
    match L.uuidParse t, hashParse c with
    | some t, some c => .ok (.requestProof t h s c i)
    | _, _ => .error
  | .reportProof t p =>
    match L.uuidParse t with
    | none => .error
    | some t =>
      match proofFromWire L p with
      | some p => .ok (.reportProof t p)
      | none => .error
  | .requestSignature t h s hs =>
    match L.uuidParse t, hashParse hs with
    | some t, some hs => .ok (.requestSignature t h s hs)
    | _, _ => .error
  | .reportSignature t s hs sig =>
    match L.uuidParse t, hashParse hs, parseG2 L sig with
    | some t, some hs, some sig => .ok (.reportSignature t s hs sig)
    | _, _, _ => .error

/-! ### frames: `EncodeMessage` / `DecodeMessage` -/

def Msg.typ : Msg → Nat
  | .requestQualities .. => 1
  | .reportQualities .. => 2
  | .requestProof .. => 3
  | .reportProof .. => 4
  | .requestSignature .. => 5
  | .reportSignature .. => 6

def Wire.typ : Wire → Nat
  | .requestQualities .. => 1
  | .reportQualities .. => 2
  | .requestProof .. => 3
  | .reportProof .. => 4
  | .requestSignature .. => 5
  | .reportSignature .. => 6

/-- `json.Marshal` / `json.Unmarshal` into the wire struct of message type `typ` -/
structure Json where
  marshal : Wire → Bytes
  unmarshal : Nat → Bytes → Option Wire

def encodeFrame (L : Lib) (J : Json) (m : Msg) : Bytes :=
  [m.typ / 256 % 256, m.typ % 256] ++ J.marshal (toWire L m)

def decodeFrame (L : Lib) (J : Json) (data : Bytes) : Result :=
  match data with
  | b0 :: b1 :: body =>
    let typ := 256 * b0 + b1
    if 1 ≤ typ ∧ typ ≤ 6 then
      match J.unmarshal typ body with
      | some w => fromWire L w
      | none => .error
    else .error
  | _ => .error

/-! ### the receive loop's frame-size decision (connection/conn.go) -/

inductive FrameAction | ctrl | close | alloc (n : Nat)
  deriving DecidableEq, Repr

def frameDecision (maxRecv size : Nat) : FrameAction :=
  if size = 0 then .ctrl else if size > maxRecv then .close else .alloc size

end MassVerif.Codec
