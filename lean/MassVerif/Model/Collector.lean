/-
Model of a local collector's answer to a qualities task (fractal/collector.go: `onRequestQualities`,
`getValidChiaQualities`, `trySlots`, `reportQualities`): from the slot after the parent's, slot by slot up to
`allowAhead` slots ahead of the clock, every space quality that exceeds the slot's target is reported, all of one
slot in one report naming the task.  Qualities and targets are library values (parameters).
-/
import MassVerif.Generated.Facts

namespace MassVerif.Collector

structure QCand where
  id : Nat
  err : Bool              -- the space keeper reported an error with it
  q : Nat → Nat           -- MASS quality at a slot (`getMASSQualities`)

def allowAhead : Nat := Facts.collectorAllowAhead

/-- `getValidChiaQualities` -/
def valid (cs : List QCand) : List QCand := cs.filter (fun c => !c.err)

/-- the qualities over the target of slot `s` -/
def satisfied (cs : List QCand) (target : Nat → Nat) (s : Nat) : List QCand :=
  (valid cs).filter (fun c => c.q s > target s)

/-- a report: the task it names, the slot, the spaces whose quality is over the slot's target -/
structure Rep where
  task : Nat
  slot : Nat
  spaces : List Nat
  deriving DecidableEq, Repr

/-- `n` iterations of the inner loop from work slot `w`: one report per slot with a non-empty result -/
def scanN (task : Nat) (cs : List QCand) (target : Nat → Nat) : Nat → Nat → List Rep
  | _, 0 => []
  | w, n + 1 =>
    let sat := satisfied cs target w
    (if sat.isEmpty then [] else [⟨task, w, sat.map (·.id)⟩]) ++ scanN task cs target (w + 1) n

structure St where
  task : Nat
  cs : List QCand
  target : Nat → Nat
  work : Nat                 -- `workSlot`: starts at `ParentSlot + 1`
  reports : List Rep := []
  cancelled : Bool := false  -- a newer qualities task arrived or the collector was stopped

inductive Label
  | tick (now : Nat)
  | cancel

def St.step (st : St) : Label → St
  | .cancel => { st with cancelled := true }
  | .tick now =>
    if st.cancelled then st
    else if (valid st.cs).isEmpty then st                 -- nothing valid: the handler returned before `trySlots`
    else if st.work > now + allowAhead then st
    else
      let n := now + allowAhead + 1 - st.work
      { st with reports := st.reports ++ scanN st.task st.cs st.target st.work n, work := st.work + n }

def St.run (st : St) (ls : List Label) : St := ls.foldl St.step st

end MassVerif.Collector
