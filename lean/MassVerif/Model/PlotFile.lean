/-
Byte-level model of the two plot files of poc/engine/massdb/massdb.v1
(hashmap.go: header layout, `HashMapA/B.Get`, `UpdateCheckpoint`; plot.go: the
memory cache of one window, its flush with `WriteToWriter`, `makeAvailableMemory`;
cache.go: `MemCache`; massdb.v1.go: `Get`, `GetProof`), refining the record-level
model `Model/Plot.lean`.

A file is a function offset ↦ byte.  Records are `L = (bl+7)/8` bytes,
little-endian (`binary.LittleEndian.PutUint64(b8, x); b8[:L]`).  A pass is a list
of *record writes* `(record index, value)` in program order: pass A writes `x`
at record `posA x`; pass B writes `x` at record `2z` and `x'` at `2z+1` for
`z = FB x x'` (`target = (z - 2·start)·2L`, then `target + L`).

What the record-level model abstracts away and this one keeps:
* the cache is `clen` *bytes* (whatever `makeAvailableMemory` yields - not
  necessarily a whole number of records, nor an even one); the window is the
  even / multiple-of-four number of records that fit; the WHOLE cache is
  flushed, so up to `4L - 1` zero bytes spill over the records that follow the
  window;
* a record is "absent" iff its bytes are zero; a value is what its `L`
  little-endian bytes say;
* header and data share one file: the checkpoint is 8 bytes at offset 42, the
  data starts at 4096.
-/
import MassVerif.Model.Plot

namespace MassVerif.PlotFile
open MassVerif.Plot

/-- offset ↦ byte -/
abbrev Bytes := Nat → Nat

/-- `pocutil.RecordSize` -/
def recordSize (bl : Nat) : Nat := (bl + 7) / 8

/-- byte `i` of `binary.LittleEndian.PutUint64(·, x)` -/
def leByte (x i : Nat) : Nat := x / 256 ^ i % 256

/-- the value of the `L` bytes at `off`, little-endian -/
def readLE (f : Bytes) (off : Nat) : Nat → Nat
  | 0 => 0
  | L + 1 => f off + 256 * readLE f (off + 1) L

/-- `cache.WriteAt(b8[:L], target)` with `b8 = PutUint64(v)` -/
def writeRec (c : Bytes) (target L v : Nat) : Bytes :=
  fun j => if target ≤ j ∧ j < target + L then leByte v (j - target) else c j

/-- `cache.Update(size)`: a fresh, zeroed allocation -/
def zeroCache : Bytes := fun _ => 0

/-- the inner loop of a pass over one window `[s, e)` (record indices): every write that lands in the
    window goes to the cache at `(record - s)·L` -/
def fillCache (ws : List (Nat × Nat)) (L s e : Nat) : Bytes :=
  ws.foldl (fun c w => if s ≤ w.1 ∧ w.1 < e then writeRec c ((w.1 - s) * L) L w.2 else c) zeroCache

/-- `cache.WriteToWriter(_, file, 0, off, cache.Len())`: the whole cache, `clen` bytes, goes to `off` -/
def flush (f : Bytes) (off clen : Nat) (c : Bytes) : Bytes :=
  fun i => if off ≤ i ∧ i < off + clen then c (i - off) else f i

/-- one window of a pass on the data region (offsets relative to the start of the data) -/
def windowBytes (ws : List (Nat × Nat)) (L clen : Nat) (f : Bytes) (s e : Nat) : Bytes :=
  flush f (s * L) clen (fillCache ws L s e)

/-- records per window, pass A: `cache.Len()/recordSize` rounded down to even -/
def winA (L clen : Nat) : Nat := clen / L - clen / L % 2
/-- records per window, pass B: `(cache.Len()/recordSize) >> 2` half-indices = four records each -/
def winB (L clen : Nat) : Nat := 4 * (clen / L / 4)

structure FileState where
  data : Bytes          -- the data region
  cp : Nat              -- checkpoint, in records (pass B stores `cp / 4`)

/-- the window loop on bytes; `clens` = the cache length (bytes) each successive window gets.
    As in the code the end point is `start + window`, NOT clipped to the table's end. -/
def runBytes (ws : List (Nat × Nat)) (L limit : Nat) (win : Nat → Nat) : List Nat → FileState → FileState
  | [], st => st
  | clen :: rest, st =>
    if st.cp ≥ limit then st
    else
      let e := st.cp + win clen
      runBytes ws L limit win rest { data := windowBytes ws L clen st.data st.cp e, cp := e }

/-- record `r` of a data region: `none` = all-zero bytes -/
def absRec (f : Bytes) (L : Nat) : Table Nat :=
  fun r => let v := readLE f (r * L) L; if v = 0 then none else some v

/-- entry `z` of map B: `(x, x')`, `none` = both records zero (what `HashMapB.Get` returns for an unwritten entry) -/
def absPair (f : Bytes) (L : Nat) : Table (Nat × Nat) :=
  fun z => let x := readLE f (2 * z * L) L; let x' := readLE f ((2 * z + 1) * L) L
           if x = 0 ∧ x' = 0 then none else some (x, x')

/-- pass B's entry writes as record writes -/
def recWritesB (ws : List (Nat × (Nat × Nat))) : List (Nat × Nat) :=
  ws.flatMap (fun w => [(2 * w.1, w.2.1), (2 * w.1 + 1, w.2.2)])

/-! ### `makeAvailableMemory` -/

/-- `makeAvailableMemory(cache, required, maxMem, minMem)` with `available` = what the OS reports:
    `none` = `ErrMemoryNotEnough`, `some n` = `cache.Update(n)` -/
def memFor (required maxMem minMem available : Nat) : Option Nat :=
  let req := if required > maxMem then maxMem else required
  if req > available then
    if available < minMem then none else some (available / minMem * minMem)
  else some req

/-- bytes pass A asks for at `start` (records): `(volume - start)·L` -/
def requiredA (N L start : Nat) : Nat := (N - start) * L
/-- bytes pass B asks for at `start` (half-indices): `(half - start)·L·4` -/
def requiredB (half L start : Nat) : Nat := (half - start) * L * 4

/-! ### header (hashmap.go) -/

def lenMeta : Nat := 4096
def posVersion : Nat := 32
def posBitLength : Nat := 40
def posType : Nat := 41
def posCheckpoint : Nat := 42
def posPubKeyHash : Nat := 50
def posPubKey : Nat := 82
def posAlign : Nat := 115

structure Header where
  bl : Nat
  typ : Nat
  checkpoint : Nat
  pkHash : List Nat        -- 32 bytes
  pk : List Nat            -- 33 bytes
  deriving DecidableEq, Repr

/-- bytes `l` laid at `pos` -/
def putAt (f : Bytes) (pos : Nat) (l : List Nat) : Bytes :=
  fun i => if pos ≤ i ∧ i < pos + l.length then l.getD (i - pos) 0 else f i

def leBytes (v n : Nat) : List Nat := (List.range n).map (leByte v)

def slice (f : Bytes) (pos n : Nat) : List Nat := (List.range n).map (fun i => f (pos + i))

/-- `createMapFile`'s header (with the given checkpoint), on a zeroed block -/
def encodeHeader (code : List Nat) (version : Nat) (h : Header) : Bytes :=
  putAt (putAt (putAt (putAt (putAt (putAt (putAt (fun _ => 0) 0 code) posVersion (leBytes version 8))
    posBitLength [h.bl % 256]) posType [h.typ % 256]) posCheckpoint (leBytes h.checkpoint 8))
    posPubKeyHash h.pkHash) posPubKey h.pk

inductive HdrErr | fileCode | version | pubKey | pubKeyHash | mapType
  deriving DecidableEq, Repr

/-- `loadHashMap` on the first 4096 bytes; `parses` / `hashOf` are the library's `ParsePubKey` / `PubKeyHash` -/
def decodeHeader (code : List Nat) (version : Nat) (typA typB : Nat) (parses : List Nat → Bool)
    (hashOf : List Nat → List Nat) (f : Bytes) : Except HdrErr Header :=
  if slice f 0 code.length ≠ code then .error .fileCode
  else if readLE f posVersion 8 ≠ version then .error .version
  else
    let pk := slice f posPubKey 33
    if !parses pk then .error .pubKey
    else if slice f posPubKeyHash 32 ≠ hashOf pk then .error .pubKeyHash
    else
      let typ := f posType
      if typ ≠ typA ∧ typ ≠ typB then .error .mapType
      else .ok { bl := f posBitLength, typ := typ, checkpoint := readLE f posCheckpoint 8,
                 pkHash := slice f posPubKeyHash 32, pk := pk }

/-- `UpdateCheckpoint`: 8 little-endian bytes at offset 42 -/
def updateCheckpoint (f : Bytes) (cp : Nat) : Bytes := putAt f posCheckpoint (leBytes cp 8)

/-- a whole file: header block, then the data region at 4096 -/
def fileOf (hdr : Bytes) (data : Bytes) : Bytes := fun i => if i < lenMeta then hdr i else data (i - lenMeta)

/-- the data write of a window, on the whole file: offset `4096 + s·L` -/
def fileFlush (file : Bytes) (L s clen : Nat) (c : Bytes) : Bytes := flush file (lenMeta + s * L) clen c

/-! ### reading (`HashMapA.Get`, `HashMapB.Get`, `MassDBV1.Get`) -/

/-- `pocutil.Bytes2PoCValue`: the low `bl` bits of the little-endian value -/
def toValue (v bl : Nat) : Nat := v % 2 ^ bl

/-- `MassDBV1.Get(z)` on the data region of map B -/
def getB (f : Bytes) (bl z : Nat) : Nat × Nat :=
  let L := recordSize bl
  (toValue (readLE f (2 * z * L) L) bl, toValue (readLE f ((2 * z + 1) * L) L) bl)

/-- `MassDBV1.GetProof(challenge)`: the entry at the challenge's `bl`-bit prefix `z`, returned only if
    the library's `VerifyProof` accepts it -/
def getProof (verify : Nat → Nat → Nat → Bool) (f : Bytes) (bl z : Nat) : Option (Nat × Nat) :=
  let (x, x') := getB f bl z
  if verify x x' z then some (x, x') else none

end MassVerif.PlotFile
