/-
Line-protocol driver of the wire codec model (C16).

  dec short | dec <typ> unknown | dec <typ> jsonerr | dec <typ> <wire fields…>
  enc <typ> <message fields…>

Wire text fields are hex of the string's bytes (`-` = empty).  Oracle-fed
library results: a uuid text field is `<text>/<parsed 16 bytes | !>`, an element
text field is `<text>/<0|1>` (does chiapos accept the decoded bytes).
-/
import MassVerif.Model.Codec
import MassVerif.Driver.Util

namespace MassVerif.Driver.C16
open MassVerif.Codec MassVerif.Driver

def textOf (tok : String) : Option Text := parseChars tok
def showText (t : Text) : String := showChars t

def splitSlash (tok : String) : Option (String × String) :=
  match tok.splitOn "/" with
  | [a, b] => some (a, b)
  | _ => none

/-- uuid text field: (text, library parse result) -/
def uuidField (tok : String) : Option (Text × Option Bytes) := do
  let (a, b) ← splitSlash tok
  let t ← textOf a
  if b = "!" then pure (t, none) else
  let p ← parseBytes b
  pure (t, some p)

/-- element text field: (text, validity of the decoded bytes) -/
def elemField (tok : String) : Option (Text × Bool) := do
  let (a, b) ← splitSlash tok
  let t ← textOf a
  pure (t, b = "1")

structure Oracle where
  uuids : List (Text × Option Bytes) := []
  elems : List (Bytes × Bool) := []

def Oracle.lib (o : Oracle) (uuidTexts : List (Bytes × Text)) : Lib :=
  { uuidText := fun b => ((uuidTexts.find? (fun p => p.1 == b)).map (·.2)).getD []
    uuidParse := fun t => ((o.uuids.find? (fun p => p.1 == t)).map (·.2)).getD none
    g1Valid := fun b => ((o.elems.find? (fun p => p.1 == b)).map (·.2)).getD false
    g2Valid := fun b => ((o.elems.find? (fun p => p.1 == b)).map (·.2)).getD false }

def Oracle.addElem (o : Oracle) (t : Text) (v : Bool) : Oracle :=
  match hexDec t with
  | some b => { o with elems := (b, v) :: o.elems }
  | none => o

/-- parse the qualities of a `dec 2` line -/
def parseWQs : List String → Oracle → Option (List (Option WQuality) × Oracle)
  | [], o => some ([], o)
  | "QNULL" :: r, o => do
    let (qs, o') ← parseWQs r o
    pure (none :: qs, o')
  | "Q" :: sid :: pk :: ppk :: idx :: ks :: q :: pid :: slot :: r, o => do
    let sid ← textOf sid
    let (pk, v1) ← elemField pk
    let (ppk, v2) ← elemField ppk
    let idx ← idx.toNat?
    let ks ← ks.toNat?
    let q ← textOf q
    let pid ← textOf pid
    let slot ← slot.toNat?
    let o := (o.addElem pk v1).addElem ppk v2
    let (qs, o') ← parseWQs r o
    pure (some { spaceId := sid, publicKey := pk, poolPublicKey := ppk, index := idx, kSize := ks,
                 quality := q, plotId := pid, slot := slot } :: qs, o')
  | _, _ => none

def parseWire (typ : Nat) (toks : List String) : Option (Wire × Oracle) :=
  match typ, toks with
  | 1, [t, c, pt, ps, h] => do
    let u ← uuidField t
    pure (.requestQualities u.1 (← textOf c) (← textOf pt) (← ps.toNat?) (← h.toNat?), { uuids := [u] })
  | 2, t :: rest => do
    let u ← uuidField t
    let (qs, o) ← parseWQs rest { uuids := [u] }
    pure (.reportQualities u.1 qs, o)
  | 3, [t, h, s, c, i] => do
    let u ← uuidField t
    pure (.requestProof u.1 (← h.toNat?) (← textOf s) (← textOf c) (← i.toNat?), { uuids := [u] })
  | 4, [t, "PNULL"] => do
    let u ← uuidField t
    pure (.reportProof u.1 none, { uuids := [u] })
  | 4, [t, "P", sid, c, ppk, plk, ks, pr] => do
    let u ← uuidField t
    let (ppk, v1) ← elemField ppk
    let (plk, v2) ← elemField plk
    let o : Oracle := (({ uuids := [u] } : Oracle).addElem ppk v1).addElem plk v2
    let wp : WProof := ⟨← textOf sid, ← textOf c, ppk, plk, ← ks.toNat?, ← textOf pr⟩
    pure (.reportProof u.1 (some wp), o)
  | 5, [t, h, s, hs] => do
    let u ← uuidField t
    pure (.requestSignature u.1 (← h.toNat?) (← textOf s) (← textOf hs), { uuids := [u] })
  | 6, [t, s, hs, sig] => do
    let u ← uuidField t
    let (sig, v) ← elemField sig
    pure (.reportSignature u.1 (← textOf s) (← textOf hs) sig, (({ uuids := [u] } : Oracle).addElem sig v))
  | _, _ => none

def showQuality (q : Quality) : String :=
  s!"[{showText q.spaceId} {showBytes q.publicKey} {showBytes q.poolPublicKey} {q.index} {q.kSize} {showBytes q.quality} {showBytes q.plotId} {q.slot}]"

def showMsg : Msg → String
  | .requestQualities t c pt ps h => s!"reqq {showBytes t} {showBytes c} {pt} {ps} {h}"
  | .reportQualities t qs => s!"repq {showBytes t}" ++ String.join (qs.map (fun q => " " ++ showQuality q))
  | .requestProof t h s c i => s!"reqp {showBytes t} {h} {showText s} {showBytes c} {i}"
  | .reportProof t p =>
    s!"repp {showBytes t} {showText p.spaceId} {showBytes p.challenge} {showBytes p.poolPublicKey} {showBytes p.plotPublicKey} {p.kSize} {showBytes p.proof} pub={showBytes p.publicKey} ord={p.ordinal} puzzle={showBytes p.puzzleHash}"
  | .requestSignature t h s hs => s!"reqs {showBytes t} {h} {showText s} {showBytes hs}"
  | .reportSignature t s hs sig => s!"reps {showBytes t} {showText s} {showBytes hs} {showBytes sig}"

def showResult : Result → String
  | .ok m => "ok " ++ showMsg m
  | .error => "error"
  | .panic => "panic"

/-! encode direction -/

def uuidValue (tok : String) : Option (Bytes × Text) := do
  let (a, b) ← splitSlash tok
  pure (← parseBytes a, ← textOf b)

def parseQs : List String → Option (List Quality)
  | [] => some []
  | "Q" :: sid :: pk :: ppk :: idx :: ks :: q :: pid :: slot :: r => do
    let qs ← parseQs r
    pure ({ spaceId := (← textOf sid), publicKey := (← parseBytes pk), poolPublicKey := (← parseBytes ppk),
            index := (← idx.toNat?), kSize := (← ks.toNat?), quality := (← parseBytes q),
            plotId := (← parseBytes pid), slot := (← slot.toNat?) } :: qs)
  | _ => none

def parseMsg (typ : Nat) (toks : List String) : Option (Msg × (Bytes × Text)) :=
  match typ, toks with
  | 1, [t, c, pt, ps, h] => do
    let u ← uuidValue t
    pure (.requestQualities u.1 (← parseBytes c) (← pt.toInt?) (← ps.toNat?) (← h.toNat?), u)
  | 2, t :: rest => do
    let u ← uuidValue t
    pure (.reportQualities u.1 (← parseQs rest), u)
  | 3, [t, h, s, c, i] => do
    let u ← uuidValue t
    pure (.requestProof u.1 (← h.toNat?) (← textOf s) (← parseBytes c) (← i.toNat?), u)
  | 4, [t, sid, c, ppk, plk, ks, pr] => do
    let u ← uuidValue t
    let p : Proof := ⟨← textOf sid, ← parseBytes c, ← parseBytes ppk, ← parseBytes plk, ← ks.toNat?,
      ← parseBytes pr, [], [], 0, false⟩
    pure (.reportProof u.1 p, u)
  | 5, [t, h, s, hs] => do
    let u ← uuidValue t
    pure (.requestSignature u.1 (← h.toNat?) (← textOf s) (← parseBytes hs), u)
  | 6, [t, s, hs, sig] => do
    let u ← uuidValue t
    pure (.reportSignature u.1 (← textOf s) (← parseBytes hs) (← parseBytes sig), u)
  | _, _ => none

def showWQ : Option WQuality → String
  | none => " QNULL"
  | some q => s!" Q {showText q.spaceId} {showText q.publicKey} {showText q.poolPublicKey} {q.index} {q.kSize} {showText q.quality} {showText q.plotId} {q.slot}"

def showWire : Wire → String
  | .requestQualities t c pt ps h => s!"w1 {showText t} {showText c} {showText pt} {ps} {h}"
  | .reportQualities t qs => s!"w2 {showText t}" ++ String.join (qs.map showWQ)
  | .requestProof t h s c i => s!"w3 {showText t} {h} {showText s} {showText c} {i}"
  | .reportProof t none => s!"w4 {showText t} PNULL"
  | .reportProof t (some p) =>
    s!"w4 {showText t} P {showText p.spaceId} {showText p.challenge} {showText p.poolPublicKey} {showText p.plotPublicKey} {p.kSize} {showText p.proof}"
  | .requestSignature t h s hs => s!"w5 {showText t} {h} {showText s} {showText hs}"
  | .reportSignature t s hs sig => s!"w6 {showText t} {showText s} {showText hs} {showText sig}"

def step (s : Unit) (toks : List String) : Unit × String :=
  match toks with
  | ["reset"] => (s, "ok")
  | ["dec", "short"] =>
    (s, showResult (decodeFrame (({} : Oracle).lib []) { marshal := fun _ => [], unmarshal := fun _ _ => none } [1]))
  | ["frame", maxr, size] =>
    match maxr.toNat?, size.toNat? with
    | some m, some n => match frameDecision m n with
      | .ctrl => (s, "ctrl")
      | .close => (s, "close")
      | .alloc k => (s, s!"alloc {k}")
    | _, _ => (s, "bad-op")
  | "dec" :: typ :: rest =>
    match typ.toNat? with
    | none => (s, "bad-op")
    | some typ =>
      let frame := [typ / 256 % 256, typ % 256, 0]
      match rest with
      | ["unknown"] | ["jsonerr"] =>
        (s, showResult (decodeFrame (({} : Oracle).lib []) { marshal := fun _ => [], unmarshal := fun _ _ => none } frame))
      | _ =>
        match parseWire typ rest with
        | none => (s, "bad-op")
        | some (w, o) =>
          (s, showResult (decodeFrame (o.lib []) { marshal := fun _ => [], unmarshal := fun _ _ => some w } frame))
  | "enc" :: typ :: rest =>
    match typ.toNat? with
    | none => (s, "bad-op")
    | some typ =>
      match parseMsg typ rest with
      | none => (s, "bad-op")
      | some (m, u) => (s, s!"t={m.typ} " ++ showWire (toWire (({} : Oracle).lib [u]) m))
  | _ => (s, "bad-op")

end MassVerif.Driver.C16

def main : IO Unit := MassVerif.Driver.runDriver () MassVerif.Driver.C16.step
