/-
Line-protocol driver of the receive-loop model (C17/C16 byte stream):

  stream <max> <piece,piece,…>     pieces are hex byte strings ("-" = no piece)
  ->  frames <frame,frame,…|-> <open|close>
-/
import MassVerif.Model.Stream
import MassVerif.Driver.Util

namespace MassVerif.Driver.Stream
open MassVerif.Stream MassVerif.Driver

def parsePieces (tok : String) : Option (List Bytes) :=
  if tok = "-" then some [] else (tok.splitOn ",").mapM parseBytes

def showFrames (evs : List Ev) : String :=
  let fs := evs.filterMap (fun e => match e with | .frame d => some (showBytes d) | _ => none)
  if fs.isEmpty then "-" else ",".intercalate fs

def step (_ : Unit) (toks : List String) : Unit × String :=
  match toks with
  | ["reset"] => ((), "ok")
  | ["stream", max, ps] =>
    match max.toNat?, parsePieces ps with
    | some max, some pieces =>
      let r := feedAll max {} pieces
      ((), s!"frames {showFrames r.2} " ++ (if r.1.stopped then "close" else "open"))
    | _, _ => ((), "bad-op")
  | _ => ((), "bad-op")

end MassVerif.Driver.Stream

def main : IO Unit := MassVerif.Driver.runDriver () MassVerif.Driver.Stream.step
