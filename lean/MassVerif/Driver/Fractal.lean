/-
Line-protocol driver of the cluster task router model (C17).
-/
import MassVerif.Model.Fractal
import MassVerif.Driver.Util

namespace MassVerif.Driver.Fractal
open MassVerif.Fractal MassVerif.Driver

def showReq (r : Req) : String := s!"{r.task}.{r.kind}.{r.payload}"

/-- per collector (ascending id): the requests it was handed, in order -/
def showInbox (s : Sup) : String :=
  let cs := (s.inbox.map (·.1)).eraseDups.mergeSort (· ≤ ·)
  let rows := cs.map fun c => s!"{c}:" ++ ",".intercalate ((s.inbox.filter (·.1 == c)).map (showReq ·.2))
  if rows.isEmpty then "-" else " ".intercalate rows

/-- per task (ascending id): what its waiter read, in order -/
def showRead (s : Sup) : String :=
  let ts := (s.read.map (·.task)).eraseDups.mergeSort (· ≤ ·)
  let rows := ts.map fun t => s!"{t}:" ++ ",".intercalate ((s.read.filter (·.task == t)).map fun r => s!"{r.cid}.{r.payload}")
  if rows.isEmpty then "-" else " ".intercalate rows

def stateStr (s : Sup) : String :=
  s!"inbox={showInbox s} read={showRead s} waiting={s.waiting.length}"

def step' (s : Sup) (toks : List String) : Sup × String :=
  match toks with
  | ["reset", _] => ({}, "ok")
  | ["add", t, k, p, tgt] =>
    match t.toNat?, k.toNat?, p.toNat? with
    | some t, some k, some p =>
      let target := if tgt == "all" then none else tgt.toNat?
      let s' := step s (.addTask ⟨t, k, p⟩ target)
      (s', "ok " ++ stateStr s')
    | _, _, _ => (s, "bad-op")
  | ["remove", t] =>
    match t.toNat? with
    | some t => let s' := step s (.removeTask t); (s', "ok " ++ stateStr s')
    | none => (s, "bad-op")
  | ["sub", c] =>
    match c.toNat? with
    | some c => let s' := step s (.subscribe c); (s', "ok " ++ stateStr s')
    | none => (s, "bad-op")
  | ["unsub", c] =>
    match c.toNat? with
    | some c => let s' := step s (.unsubscribe c); (s', "ok " ++ stateStr s')
    | none => (s, "bad-op")
  | ["report", c, t, p] =>
    match c.toNat?, t.toNat?, p.toNat? with
    | some c, some t, some p => let s' := step s (.report c t p); (s', "ok " ++ stateStr s')
    | _, _, _ => (s, "bad-op")
  | ["read", t] =>
    match t.toNat? with
    | some t => let s' := step s (.read t); (s', "ok " ++ stateStr s')
    | none => (s, "bad-op")
  | _ => (s, "bad-op")

end MassVerif.Driver.Fractal

def main : IO Unit := MassVerif.Driver.runDriver ({} : MassVerif.Fractal.Sup) MassVerif.Driver.Fractal.step'
