/-
Line-protocol driver of the HD / mnemonic models (C18).  All library crypto
(HMAC-SHA512, secp256k1, hash160, double SHA-256, first byte of SHA-256) is
oracle-fed by the harness as tables on each line; the model assembles the
inputs itself, so a different data assembly finds no table entry (`?`).
-/
import MassVerif.Model.Mnemonic
import MassVerif.Driver.Util

namespace MassVerif.Driver.C18
open MassVerif.HD MassVerif.Mnemonic MassVerif.Codec MassVerif.Driver

structure Tables where
  n : Nat := 0
  hm : List ((Bytes × Bytes) × Bytes) := []
  pub : List (Nat × Bytes) := []
  add : List ((Bytes × Nat) × Option Bytes) := []
  h160 : List (Bytes × Bytes) := []
  ck : List (Bytes × Bytes) := []
  pv : List (Bytes × Option Bytes) := []
  valid : List (Bytes × Bool) := []
  cs : List (Bytes × Nat) := []

def missing : Bytes := [63]   -- "?" : no oracle entry for what the model asked

def lookup {α β} [BEq α] (l : List (α × β)) (k : α) : Option β := (l.find? (fun p => p.1 == k)).map (·.2)

def Tables.crypto (t : Tables) : Crypto :=
  { n := t.n
    hmac := fun k d => (lookup t.hm (k, d)).getD missing
    pub := fun s => (lookup t.pub s).getD missing
    pubAdd := fun p il => (lookup t.add (p, il)).getD none
    h160 := fun b => (lookup t.h160 b).getD missing
    checksum := fun b => (lookup t.ck b).getD missing
    pubVersion := fun v => (lookup t.pv v).getD none
    pubValid := fun b => (lookup t.valid b).getD false }

def optBytes (s : String) : Option (Option Bytes) :=
  if s = "!" then some none else (parseBytes s).map some

def addOracle (t : Tables) (tok : String) : Option Tables :=
  match tok.splitOn "=" with
  | [lhs, rhs] =>
    match lhs.splitOn ":" with
    | ["n"] => do pure { t with n := bytesToNat (← parseBytes rhs) }
    | ["hm", k, d] => do pure { t with hm := ((← parseBytes k, ← parseBytes d), ← parseBytes rhs) :: t.hm }
    | ["pub", s] => do pure { t with pub := (bytesToNat (← parseBytes s), ← parseBytes rhs) :: t.pub }
    | ["add", p, il] => do pure { t with add := ((← parseBytes p, bytesToNat (← parseBytes il)), ← optBytes rhs) :: t.add }
    | ["h160", b] => do pure { t with h160 := (← parseBytes b, ← parseBytes rhs) :: t.h160 }
    | ["ck", b] => do pure { t with ck := (← parseBytes b, ← parseBytes rhs) :: t.ck }
    | ["pv", v] => do pure { t with pv := (← parseBytes v, ← optBytes rhs) :: t.pv }
    | ["valid", b] => do pure { t with valid := (← parseBytes b, rhs = "1") :: t.valid }
    | ["cs", b] => do pure { t with cs := (← parseBytes b, ← rhs.toNat?) :: t.cs }
    | _ => none
  | _ => none

def parseOracles (toks : List String) : Option Tables :=
  toks.foldlM addOracle {}

def parseKey (tok : String) : Option XKey :=
  match tok.splitOn "," with
  | [k, cc, d, fp, num, p, v] => do
    pure { key := ← parseBytes k, chainCode := ← parseBytes cc, depth := ← d.toNat?, parentFP := ← parseBytes fp,
           childNum := ← num.toNat?, isPrivate := p = "1", version := ← parseBytes v }
  | _ => none

def showKey (k : XKey) : String :=
  s!"{showBytes k.key},{showBytes k.chainCode},{k.depth},{showBytes k.parentFP},{k.childNum},{if k.isPrivate then 1 else 0},{showBytes k.version}"

def errName : Err → String
  | .beyondMaxDepth => "beyondMaxDepth" | .hardFromPublic => "hardFromPublic" | .invalidChild => "invalidChild"
  | .parse => "parse" | .unusableSeed => "unusableSeed" | .seedLen => "seedLen" | .keyLen => "keyLen"
  | .badChecksum => "badChecksum" | .version => "version"

def showRes : Except Err XKey → String
  | .ok k => "ok " ++ showKey k
  | .error e => "err " ++ errName e

def parseIdx (tok : String) : Option (List Nat) :=
  if tok = "-" then some [] else (tok.splitOn ",").mapM String.toNat?

def showIdx (l : List Nat) : String := if l.isEmpty then "-" else ",".intercalate (l.map toString)

def dErr : DErr → String
  | .invalid => "invalid" | .invalidWord => "invalidWord" | .checksum => "checksum"

def step (s : Unit) (toks : List String) : Unit × String :=
  let bad := (s, "bad-op")
  match toks with
  | ["reset"] => (s, "ok")
  | "master" :: seed :: ver :: orc =>
    match parseBytes seed, parseBytes ver, parseOracles orc with
    | some seed, some ver, some t => (s, showRes (newMaster t.crypto seed ver))
    | _, _, _ => bad
  | "child" :: k :: i :: orc =>
    match parseKey k, i.toNat?, parseOracles orc with
    | some k, some i, some t => (s, showRes (child t.crypto k i))
    | _, _, _ => bad
  | "childspec" :: k :: i :: orc =>
    match parseKey k, i.toNat?, parseOracles orc with
    | some k, some i, some t => (s, showRes ((childSpec t.crypto k i).map norm))
    | _, _, _ => bad
  | "neuter" :: k :: orc =>
    match parseKey k, parseOracles orc with
    | some k, some t => (s, showRes (neuter t.crypto k))
    | _, _ => bad
  | "ser" :: k :: orc =>
    match parseKey k, parseOracles orc with
    | some k, some t => (s, "ok " ++ showBytes (serialize t.crypto k))
    | _, _ => bad
  | "parse" :: d :: orc =>
    match parseBytes d, parseOracles orc with
    | some d, some t => (s, showRes (parse t.crypto d))
    | _, _ => bad
  | "mn" :: e :: orc =>
    match parseBytes e, parseOracles orc with
    | some e, some t =>
      match newMnemonic (fun b => (lookup t.cs b).getD 0) e with
      | some ws => (s, "ok " ++ showIdx ws)
      | none => (s, "err entropyLen")
    | _, _ => bad
  | "emn" :: ws :: orc =>
    match parseIdx ws, parseOracles orc with
    | some ws, some t =>
      match entropyFromMnemonic (fun b => (lookup t.cs b).getD 0) ws with
      | .ok e => (s, "ok " ++ showBytes e)
      | .error e => (s, "err " ++ dErr e)
    | _, _ => bad
  | "raw" :: ws :: orc =>
    match parseIdx ws, parseOracles orc with
    | some ws, some t =>
      match mnemonicToRaw (fun b => (lookup t.cs b).getD 0) ws with
      | .ok e => (s, "ok " ++ showBytes e)
      | .error e => (s, "err " ++ dErr e)
    | _, _ => bad
  | _ => bad

end MassVerif.Driver.C18

def main : IO Unit := MassVerif.Driver.runDriver () MassVerif.Driver.C18.step
