/-
Line-protocol driver of the start-up scan model (C11).
-/
import MassVerif.Model.Scan
import MassVerif.Driver.Util

namespace MassVerif.Driver.Scan
open MassVerif.Scan MassVerif.Driver

structure S where
  wallet : List (Nat × Nat) := []
  files : List ((Nat × Nat × Nat × Nat × Bool) × Hdr) := []
  entries : List Entry := []

def world (s : S) : World :=
  { wallet := fun k => (s.wallet.find? (·.1 == k)).map (·.2),
    file := fun d o k b a => (s.files.find? (fun f => f.1 == (d, o, k, b, a))).map (·.2) }

def stName : St → String | .registered => "registered" | .ready => "ready"

def nats (l : List String) : Option (List Nat) := l.mapM (·.toNat?)

def step (s : S) (toks : List String) : S × String :=
  match toks with
  | ["reset", _] => ({}, "ok")
  | "w" :: rest => match nats rest with
    | some [k, o] => ({ s with wallet := s.wallet ++ [(k, o)] }, "ok")
    | _ => (s, "bad-op")
  | "f" :: rest => match nats rest with
    | some [d, o, k, b, a, x1, x2, x3, x4, x5, typ, hbl, hkey, cp] =>
      ({ s with files := s.files ++ [((d, o, k, b, a == 1), ⟨x1 == 1, x2 == 1, x3 == 1, x4 == 1, x5 == 1, typ, hbl, hkey, cp⟩)] }, "ok")
    | _ => (s, "bad-op")
  | "e" :: rest => match nats rest with
    | some [d, sh, o, kv, k, b, bv] =>
      ({ s with entries := s.entries ++ [⟨d, sh == 1, o, kv == 1, k, b, bv == 1⟩] }, "ok")
    | _ => (s, "bad-op")
  | ["scan"] =>
    let res := scan (world s) s.entries
    let rows := (res.map fun i => s!"{i.ord}:{i.key}:{i.bl}@{i.dir}={stName i.state}").mergeSort (fun a b => a ≤ b)
    (s, if rows.isEmpty then "-" else " ".intercalate rows)
  | _ => (s, "bad-op")

end MassVerif.Driver.Scan

def main : IO Unit := MassVerif.Driver.runDriver ({} : MassVerif.Driver.Scan.S) MassVerif.Driver.Scan.step
