/-
Line-protocol driver of the plot model (C07, C10).  `P` and the needed `FB`
values come from the library (oracle-fed tables on each line).

  run bl=<b> P=<y0,y1,…> FB=<x:x':z;…> wa=<cache records,…> wb=<cache records,…>
      A0=<x0,x1,…|-> cpA0=<n> B0=<x:x',…|-> cpB0=<n>
  → cpA=<n> cpB=<n> plotted=<0|1> B=<x:x',…>     (0:0 = empty entry)

Byte level (`Model/PlotFile.lean`): the data regions of the two files, byte for byte, with the cache BYTE
length of every window as the code used it (no cycling: one entry per window)
  bytes bl=<b> P=<…> FB=<…> ca=<cache bytes,…|-> cb=<cache bytes,…|-> A0=<hex|-> cpA0=<records> B0=<hex> cpB0=<half-indices> end=<run|image>
  → cpA=<records> cpB=<half-indices> A=<hex|-> B=<hex>        (A=- : map A was complete before and is not rewritten)
  header code=<hex> ver=<n> pk=<hex> pkhash=<hex> bl=<n> typ=<n> cp=<n>       → the first 115 bytes `createMapFile`/`UpdateCheckpoint` leave
  decode code=<hex> ver=<n> ta=<n> tb=<n> hdr=<hex, 115 bytes> parses=<0|1> hash=<hex|->   → ok bl= typ= cp= | err <kind>
-/
import MassVerif.Model.Plot
import MassVerif.Model.PlotFile
import MassVerif.Driver.Util

namespace MassVerif.Driver.Plot
open MassVerif.Plot MassVerif.Driver

def field (toks : List String) (name : String) : Option String :=
  (toks.find? (fun t => t.startsWith (name ++ "="))).map (fun t => (t.drop (name.length + 1)).toString)

def nats (s : String) : Option (List Nat) :=
  if s = "-" ∨ s = "" then some [] else (s.splitOn ",").mapM String.toNat?

def pairs (s : String) : Option (List (Nat × Nat)) :=
  if s = "-" ∨ s = "" then some [] else
  (s.splitOn ",").mapM (fun t => match t.splitOn ":" with
    | [a, b] => do pure (← a.toNat?, ← b.toNat?)
    | _ => none)

def triples (s : String) : Option (List (Nat × Nat × Nat)) :=
  if s = "-" ∨ s = "" then some [] else
  (s.splitOn ";").mapM (fun t => match t.splitOn ":" with
    | [a, b, c] => do pure (← a.toNat?, ← b.toNat?, ← c.toNat?)
    | _ => none)

def tableOfList {α : Type} (l : Array (Option α)) : Table α := fun pos => (l[pos]?).getD none

/-- materialise a table on `[0, n)` (so that later lookups are cheap) -/
def freeze {α : Type} (t : Table α) (n : Nat) : Array (Option α) := (Array.range n).map t

/-- cycle a non-empty list of sizes to `k` entries -/
def cycle (l : List Nat) (k : Nat) : List Nat :=
  if l.isEmpty then List.replicate k 1 else (List.range k).map (fun i => l[i % l.length]!)

def runLine (toks : List String) : Option String := do
  let bl ← (← field toks "bl").toNat?
  let pv ← nats (← field toks "P")
  let fb ← triples (← field toks "FB")
  let wa ← nats (← field toks "wa")
  let wb ← nats (← field toks "wb")
  let a0 ← nats (← field toks "A0")
  let cpA0 ← (← field toks "cpA0").toNat?
  let b0 ← pairs (← field toks "B0")
  let cpB0 ← (← field toks "cpB0").toNat?
  let parr := pv.toArray
  let p : Params := { bl := bl, P := fun x => parr[x]?.getD 0,
                      FB := fun x x' => ((fb.find? (fun t => t.1 == x && t.2.1 == x')).map (·.2.2)).getD (2 ^ bl + 7) }
  let n := p.N
  let aInit : Array (Option Nat) := (Array.range n).map (fun i => match a0[i]? with | some 0 => none | some v => some v | none => none)
  let bInit : Array (Option (Nat × Nat)) := (Array.range n).map (fun i => match b0[i]? with
    | some (0, 0) => none | some v => some v | none => none)
  -- pass A, window by window (freezing the table after each window keeps evaluation linear)
  let stepA := fun (st : Array (Option Nat) × Nat) (c : Nat) =>
    if st.2 ≥ n then st else
    let r := prePlot p [c] { table := tableOfList st.1, checkpoint := st.2 }
    (freeze r.table n, r.checkpoint)
  let (aArr, cpA) := (cycle wa (n + 2)).foldl stepA (aInit, cpA0)
  let aT := tableOfList aArr
  let stepB := fun (st : Array (Option (Nat × Nat)) × Nat) (c : Nat) =>
    if st.2 ≥ n then st else
    let r := plot p aT [c] { table := tableOfList st.1, checkpoint := st.2 }
    (freeze r.table n, r.checkpoint)
  let (bArr, cpB) := if cpA ≥ n then (cycle wb (n + 2)).foldl stepB (bInit, 2 * cpB0) else (bInit, 2 * cpB0)
  let showB := ",".intercalate (bArr.toList.map (fun e => match e with | some (x, x') => s!"{x}:{x'}" | none => "0:0"))
  pure s!"cpA={cpA} cpB={cpB / 2} plotted={if cpB ≥ n then 1 else 0} B={showB}"

open MassVerif.PlotFile in
/-- materialise a byte function on `[0, n)` -/
def ofArr (arr : Array Nat) : Bytes := fun i => arr[i]?.getD 0

open MassVerif.PlotFile in
/-- materialise a byte function on `[0, n)` (the array is built once, by the caller of the returned function) -/
def freezeArr (f : Bytes) (n : Nat) : Array Nat := (Array.range n).map f

open MassVerif.PlotFile in
def bytesOfList (l : List Nat) : Bytes := ofArr l.toArray

open MassVerif.PlotFile in
def bytesLine (toks : List String) : Option String := do
  let bl ← (← field toks "bl").toNat?
  let pv ← nats (← field toks "P")
  let fb ← triples (← field toks "FB")
  let ca ← nats (← field toks "ca")
  let cb ← nats (← field toks "cb")
  let a0tok ← field toks "A0"
  let a0 ← parseBytes a0tok
  let cpA0 ← (← field toks "cpA0").toNat?
  let b0 ← parseBytes (← field toks "B0")
  let cpB0 ← (← field toks "cpB0").toNat?
  let parr := pv.toArray
  let p : Params := { bl := bl, P := fun x => parr[x]?.getD 0,
                      FB := fun x x' => ((fb.find? (fun t => t.1 == x && t.2.1 == x')).map (·.2.2)).getD (2 ^ bl + 7) }
  let n := p.N
  let L := recordSize bl
  let hasA := a0tok ≠ "-"
  -- `OpenDB` does not load map A of a plotted space and `Plot()` then returns at once: nothing runs
  let plotted0 := decide (4 * cpB0 ≥ 2 * n)
  let ca := if plotted0 then [] else ca
  -- pass A: one `runBytes` step per window, frozen after each
  let wsA := writesA p
  let stA := ca.foldl (fun (st : FileState) clen =>
      let r := runBytes wsA L n (winA L) [clen] st
      let arr := freezeArr r.data (n * L + 8 * L)
      { data := ofArr arr, cp := r.cp }) { data := bytesOfList a0, cp := cpA0 }
  let stA := if hasA then stA else { data := bytesOfList a0, cp := n }
  -- pass B reads table A from the bytes of file A
  let aT := tableOfList (freeze (absRec stA.data L) n)
  let wsB := recWritesB (writesB p aT)
  let stB := if stA.cp ≥ n then cb.foldl (fun (st : FileState) clen =>
      let r := runBytes wsB L (2 * n) (winB L) [clen] st
      let arr := freezeArr r.data (2 * n * L + 8 * L)
      { data := ofArr arr, cp := r.cp }) { data := bytesOfList b0, cp := 4 * cpB0 }
    else { data := bytesOfList b0, cp := 4 * cpB0 }
  -- a plot that completes removes map A
  let midRun := (field toks "end") = some "image"      -- an image taken while `executePlot` was still running
  let showA := if !hasA then "-" else if !plotted0 && stB.cp ≥ 2 * n && !midRun then "removed"
               else natsToHex ((List.range (n * L)).map stA.data)
  pure s!"cpA={stA.cp} cpB={stB.cp / 4} A={showA} B={natsToHex ((List.range (2 * n * L)).map stB.data)}"

open MassVerif.PlotFile in
def headerLine (toks : List String) : Option String := do
  let code ← parseBytes (← field toks "code")
  let ver ← (← field toks "ver").toNat?
  let pk ← parseBytes (← field toks "pk")
  let pkhash ← parseBytes (← field toks "pkhash")
  let bl ← (← field toks "bl").toNat?
  let typ ← (← field toks "typ").toNat?
  let cp ← (← field toks "cp").toNat?
  let f := encodeHeader code ver { bl := bl, typ := typ, checkpoint := cp, pkHash := pkhash, pk := pk }
  pure (natsToHex ((List.range posAlign).map f))

open MassVerif.PlotFile in
def decodeLine (toks : List String) : Option String := do
  let code ← parseBytes (← field toks "code")
  let ver ← (← field toks "ver").toNat?
  let ta ← (← field toks "ta").toNat?
  let tb ← (← field toks "tb").toNat?
  let hdr ← parseBytes (← field toks "hdr")
  let parses := (← field toks "parses") = "1"
  let hash ← parseBytes (← field toks "hash")
  match decodeHeader code ver ta tb (fun _ => parses) (fun _ => hash) (bytesOfList hdr) with
  | .ok h => pure s!"ok bl={h.bl} typ={h.typ} cp={h.checkpoint} pk={natsToHex h.pk}"
  | .error e => pure (match e with
      | .fileCode => "err fileCode" | .version => "err version" | .pubKey => "err pubKey"
      | .pubKeyHash => "err pubKeyHash" | .mapType => "err mapType")

def step (s : Unit) (toks : List String) : Unit × String :=
  match toks with
  | ["reset"] => (s, "ok")
  | "run" :: rest => (s, (runLine rest).getD "bad-op")
  | "bytes" :: rest => (s, (bytesLine rest).getD "bad-op")
  | "header" :: rest => (s, (headerLine rest).getD "bad-op")
  | "decode" :: rest => (s, (decodeLine rest).getD "bad-op")
  | _ => (s, "bad-op")

end MassVerif.Driver.Plot

def main : IO Unit := MassVerif.Driver.runDriver () MassVerif.Driver.Plot.step
