/-
Line-protocol driver of the plot model (C07, C10).  `P` and the needed `FB`
values come from the library (oracle-fed tables on each line).

  run bl=<b> P=<y0,y1,…> FB=<x:x':z;…> wa=<cache records,…> wb=<cache records,…>
      A0=<x0,x1,…|-> cpA0=<n> B0=<x:x',…|-> cpB0=<n>
  → cpA=<n> cpB=<n> plotted=<0|1> B=<x:x',…>     (0:0 = empty entry)
-/
import MassVerif.Model.Plot
import MassVerif.Driver.Util

namespace MassVerif.Driver.Plot
open MassVerif.Plot MassVerif.Driver

def field (toks : List String) (name : String) : Option String :=
  (toks.find? (fun t => t.startsWith (name ++ "="))).map (fun t => (t.drop (name.length + 1)).toString)

def nats (s : String) : Option (List Nat) :=
  if s = "-" ∨ s = "" then some [] else (s.splitOn ",").mapM String.toNat?

def pairs (s : String) : Option (List (Nat × Nat)) :=
  if s = "-" ∨ s = "" then some [] else
  (s.splitOn ",").mapM (fun t => match t.splitOn ":" with
    | [a, b] => do pure (← a.toNat?, ← b.toNat?)
    | _ => none)

def triples (s : String) : Option (List (Nat × Nat × Nat)) :=
  if s = "-" ∨ s = "" then some [] else
  (s.splitOn ";").mapM (fun t => match t.splitOn ":" with
    | [a, b, c] => do pure (← a.toNat?, ← b.toNat?, ← c.toNat?)
    | _ => none)

def tableOfList {α : Type} (l : Array (Option α)) : Table α := fun pos => (l[pos]?).getD none

/-- materialise a table on `[0, n)` (so that later lookups are cheap) -/
def freeze {α : Type} (t : Table α) (n : Nat) : Array (Option α) := (Array.range n).map t

/-- cycle a non-empty list of sizes to `k` entries -/
def cycle (l : List Nat) (k : Nat) : List Nat :=
  if l.isEmpty then List.replicate k 1 else (List.range k).map (fun i => l[i % l.length]!)

def runLine (toks : List String) : Option String := do
  let bl ← (← field toks "bl").toNat?
  let pv ← nats (← field toks "P")
  let fb ← triples (← field toks "FB")
  let wa ← nats (← field toks "wa")
  let wb ← nats (← field toks "wb")
  let a0 ← nats (← field toks "A0")
  let cpA0 ← (← field toks "cpA0").toNat?
  let b0 ← pairs (← field toks "B0")
  let cpB0 ← (← field toks "cpB0").toNat?
  let parr := pv.toArray
  let p : Params := { bl := bl, P := fun x => parr[x]?.getD 0,
                      FB := fun x x' => ((fb.find? (fun t => t.1 == x && t.2.1 == x')).map (·.2.2)).getD (2 ^ bl + 7) }
  let n := p.N
  let aInit : Array (Option Nat) := (Array.range n).map (fun i => match a0[i]? with | some 0 => none | some v => some v | none => none)
  let bInit : Array (Option (Nat × Nat)) := (Array.range n).map (fun i => match b0[i]? with
    | some (0, 0) => none | some v => some v | none => none)
  -- pass A, window by window (freezing the table after each window keeps evaluation linear)
  let stepA := fun (st : Array (Option Nat) × Nat) (c : Nat) =>
    if st.2 ≥ n then st else
    let r := prePlot p [c] { table := tableOfList st.1, checkpoint := st.2 }
    (freeze r.table n, r.checkpoint)
  let (aArr, cpA) := (cycle wa (n + 2)).foldl stepA (aInit, cpA0)
  let aT := tableOfList aArr
  let stepB := fun (st : Array (Option (Nat × Nat)) × Nat) (c : Nat) =>
    if st.2 ≥ n then st else
    let r := plot p aT [c] { table := tableOfList st.1, checkpoint := st.2 }
    (freeze r.table n, r.checkpoint)
  let (bArr, cpB) := if cpA ≥ n then (cycle wb (n + 2)).foldl stepB (bInit, 2 * cpB0) else (bInit, 2 * cpB0)
  let showB := ",".intercalate (bArr.toList.map (fun e => match e with | some (x, x') => s!"{x}:{x'}" | none => "0:0"))
  pure s!"cpA={cpA} cpB={cpB / 2} plotted={if cpB ≥ n then 1 else 0} B={showB}"

def step (s : Unit) (toks : List String) : Unit × String :=
  match toks with
  | ["reset"] => (s, "ok")
  | "run" :: rest => (s, (runLine rest).getD "bad-op")
  | _ => (s, "bad-op")

end MassVerif.Driver.Plot

def main : IO Unit := MassVerif.Driver.runDriver () MassVerif.Driver.Plot.step
