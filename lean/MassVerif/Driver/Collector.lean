/-
Line-protocol driver of the collector model (C17, collector side).
-/
import MassVerif.Model.Collector
import MassVerif.Driver.Util

namespace MassVerif.Driver.Collector
open MassVerif.Collector MassVerif.Driver

def base : Nat := 32   -- protocol slots are relative to ParentSlot + 1; the model works at `base +`

structure S where
  cs : List QCand := []
  target : List Nat := []

def tbl (l : List Nat) (s : Nat) : Nat := if s < base then 0 else l.getD (s - base) 0

def step (s : S) (toks : List String) : S × String :=
  match toks with
  | ["reset", _] => ({}, "ok")
  | "cand" :: id :: e :: qs =>
    match id.toNat?, qs.mapM (·.toNat?) with
    | some id, some qs => ({ s with cs := s.cs ++ [⟨id, e == "1", tbl qs⟩] }, "ok")
    | _, _ => (s, "bad-op")
  | "target" :: ts =>
    match ts.mapM (·.toNat?) with
    | some ts => ({ s with target := ts }, "ok")
    | none => (s, "bad-op")
  | "collect" :: task :: ls =>
    match task.toNat? with
    | none => (s, "bad-op")
    | some task =>
      let labels := ls.filterMap fun t =>
        if t == "cancel" then some Label.cancel
        else match t.splitOn ":" with
          | ["tick", n] => (n.toInt?).map fun i => Label.tick (Int.toNat (i + base))
          | _ => none
      let st : St := { task := task, cs := s.cs, target := fun sl => if sl < base then 0 else s.target.getD (sl - base) (10 ^ 80), work := base }
      let fin := st.run labels
      let rows := fin.reports.map fun r => s!"{r.slot - base}:" ++ ",".intercalate ((r.spaces.mergeSort (· ≤ ·)).map toString)
      (s, if rows.isEmpty then "-" else " ".intercalate rows)
  | _ => (s, "bad-op")

end MassVerif.Driver.Collector

def main : IO Unit := MassVerif.Driver.runDriver ({} : MassVerif.Driver.Collector.S) MassVerif.Driver.Collector.step
