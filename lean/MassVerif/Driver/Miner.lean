/-
Line-protocol driver of the miner model (C08).
-/
import MassVerif.Model.Miner
import MassVerif.Driver.Util

namespace MassVerif.Driver.Miner
open MassVerif.Miner MassVerif.Driver

def base : Nat := 16     -- slot offsets of the protocol are relative to the first work slot; the model works at `base +`

structure S where
  cands : List Cand := []
  target : List Nat := []

def tbl (l : List Nat) (s : Nat) : Nat := if s < base then 0 else l.getD (s - base) 0

def parseLabel (t : String) : Option Label :=
  if t == "tip" then some .betterTip
  else if t == "lesser" then some .lesserTip
  else if t == "stop" then some .stop
  else match t.splitOn ":" with
    | ["tick", n] => (n.toInt?).map fun i => .tick (Int.toNat (i + base))
    | _ => none

def parseAfter (t : String) : Option After :=
  match t with
  | "after=none" => some .none | "after=stop" => some .stop | "after=tip" => some .tip | "after=reject" => some .reject
  | _ => none

def step (s : S) (toks : List String) : S × String :=
  match toks with
  | ["reset", _] => ({}, "ok")
  | "cand" :: id :: e :: b :: v :: qs =>
    match id.toNat?, qs.mapM (·.toNat?) with
    | some id, some qs => ({ s with cands := s.cands ++ [⟨id, e == "1", b == "1", v == "1", tbl qs⟩] }, "ok")
    | _, _ => (s, "bad-op")
  | "target" :: ts =>
    match ts.mapM (·.toNat?) with
    | some ts => ({ s with target := ts }, "ok")
    | none => (s, "bad-op")
  | "round" :: m :: a :: ls =>
    match parseAfter a, ls.mapM parseLabel with
    | some a, some ls =>
      let (o, mined) := round (m == "mined=1") s.cands (fun sl => if sl < base then 0 else (s.target.getD (sl - base) (10 ^ 70))) base ls a
      let m' := if mined then 1 else 0
      let txt := match o with
        | .submitted c sl => s!"submitted {c.id} {sl - base}"
        | .withheld => "withheld" | .quit => "quit" | .error => "error" | .noValidProof => "noValidProof"
        | .avoidDoubleMining => "avoidDoubleMining" | .unfinished => "unfinished"
      (s, s!"{txt} mined={m'}")
    | _, _ => (s, "bad-op")
  | ["round2", m] => (s, if m == "mined=1" then "avoidDoubleMining" else "proceeds")
  | _ => (s, "bad-op")

end MassVerif.Driver.Miner

def main : IO Unit := MassVerif.Driver.runDriver ({} : MassVerif.Driver.Miner.S) MassVerif.Driver.Miner.step
