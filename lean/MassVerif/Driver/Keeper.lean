/-
Line-protocol driver of the keeper model (C09, C11 actions, C13): one label per line.
-/
import MassVerif.Model.Keeper
import MassVerif.Driver.Util

namespace MassVerif.Driver.Keeper
open MassVerif.Keeper MassVerif.Driver

def stName : St → String
  | .registered => "registered" | .plotting => "plotting" | .ready => "ready" | .mining => "mining"

def b01 (b : Bool) : String := if b then "1" else "0"

def showList (l : List Nat) : String := if l.isEmpty then "-" else ",".intercalate (l.map toString)

def pcName : Pc → String
  | .exited => "exited" | .willRecv => "willRecv" | .willPop => "willPop" | .popped => "popped"
  | .plotting s => s!"plotting:{s}" | .finished s => s!"finished:{s}"

def dump (k : K) : String :=
  let rows := (List.range k.n).filterMap fun sid =>
    match k.ws sid with
    | none => none
    | some w =>
      if w.inAll || !w.idx.isEmpty || k.list.contains sid then
        let bits := String.join ([St.registered, .plotting, .ready, .mining].map (fun s => b01 (w.idx.contains s)))
        some s!" [{sid} f={stName w.field} idx={bits} all={b01 w.inAll} u={b01 w.inUse}]"
      else none
  let q := (k.queue.map (·.sid)).mergeSort (fun a b => toString a ≤ toString b)
  let files := ((List.range k.n).filter (fun sid => match k.ws sid with | some w => w.filesExist | none => false)).mergeSort (fun a b => toString a ≤ toString b)
  let popped := match k.popped with
    | some r => s!"{r.sid}:{b01 r.wouldMining}"
    | none => "-"
  s!"pc={pcName k.pc} q={b01 k.quitting}" ++ String.join rows ++
    s!" list={showList k.list} chan={k.chan.length} queue={showList q} popped={popped} deleted={showList k.deleted} files={showList files}"

def errStr : Except Err Unit → String
  | .ok _ => "ok"
  | .error .notExist => "err notExist"
  | .error .notPlotting => "err notPlotting"
  | .error .notStill => "err notStill"
  | .error .queueFull => "err queueFull"

def parseAct : String → Option Act
  | "plot" => some .plot | "mine" => some .mine | "stop" => some .stop | "remove" => some .remove | "delete" => some .delete
  | _ => none

def doLabel (k : K) (l : Label) (okOut : String := "ok") : K × String :=
  match micro k l with
  | some k' => (k', if k'.panicked && !k.panicked then "panic" else okOut)
  | none => (k, "disabled")

def step (k : K) (toks : List String) : K × String :=
  match toks with
  | ["reset", n] => match n.toNat? with
    | some n => (initK n, "ok")
    | none => (k, "bad-op")
  | ["dump"] => (k, if k.panicked then "PANICKED" else dump k)
  | ["keeperstart"] => doLabel k .start
  | ["quit"] => doLabel k .quit
  | ["exit", d] => doLabel k (.exit (d = "1"))
  | ["recv"] => doLabel k .recv
  | ["pop", wm, ep] => match ep.toNat? with
    | some ep => doLabel k (.pop (wm = "1") ep)
    | none => (k, "bad-op")
  | ["step1"] => doLabel k .step1
  | ["step3"] => doLabel k .step3
  | ["plotends", _, d] => doLabel k (.plotEnds (d = "1"))
  | ["settle"] => (settled k, "ok")
  | ["bulk", a, f] =>
    match parseAct a, f.toNat? with
    | some a, some f =>
      let (k', rs) := bulk k a f
      let parts := (rs.map (fun r => s!"{r.1}:" ++ (errStr r.2).replace " " "_")).mergeSort (fun a b => a ≤ b)
      (k', "res " ++ (if parts.isEmpty then "-" else ",".intercalate parts))
    | _, _ => (k, "bad-op")
  | ["flood", sid, n] =>
    match sid.toNat?, n.toNat? with
    | some sid, some n =>
      -- `n` successive plot requests for `sid`; how many were accepted, how many refused (channel full)
      let rec go : Nat → K → Nat → Nat → K × Nat × Nat
        | 0, k, a, r => (k, a, r)
        | m + 1, k, a, r =>
          let isOk := match (act k .plot sid).2 with | .ok _ => true | .error _ => false
          match micro k (.api .plot sid) with
          | some k' => if isOk then go m k' (a + 1) r else go m k' a (r + 1)
          | none => (k, a, r)
      let (k', a, r) := go n k 0 0
      (k', s!"accepted {a} refused {r}")
    | _, _ => (k, "bad-op")
  | [a, sid] =>
    match parseAct a, sid.toNat? with
    | some a, some sid =>
      let r := (act k a sid).2
      match micro k (.api a sid) with
      | some k' => (k', errStr r)
      | none => (k, "disabled")
    | _, _ => (k, "bad-op")
  | _ => (k, "bad-op")

end MassVerif.Driver.Keeper

def main : IO Unit := MassVerif.Driver.runDriver ({} : MassVerif.Keeper.K) MassVerif.Driver.Keeper.step
