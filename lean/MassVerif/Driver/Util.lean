/-
Shared helpers of the line-protocol drivers (core-only).
-/
namespace MassVerif.Driver

def hexDigit (n : Nat) : Char :=
  if n < 10 then Char.ofNat (48 + n) else Char.ofNat (87 + n)

def hexVal (c : Char) : Option Nat :=
  if '0' ≤ c ∧ c ≤ '9' then some (c.toNat - 48)
  else if 'a' ≤ c ∧ c ≤ 'f' then some (c.toNat - 87)
  else if 'A' ≤ c ∧ c ≤ 'F' then some (c.toNat - 55)
  else none

/-- bytes as naturals < 256 -/
def hexToNats : List Char → Option (List Nat)
  | [] => some []
  | [_] => none
  | a :: b :: r => do
    let x ← hexVal a
    let y ← hexVal b
    let t ← hexToNats r
    pure ((16 * x + y) :: t)

def natsToHex (l : List Nat) : String :=
  String.ofList (l.flatMap (fun n => [hexDigit (n / 16 % 16), hexDigit (n % 16)]))

/-- token "-" is the empty byte string -/
def parseBytes (tok : String) : Option (List Nat) :=
  if tok = "-" then some [] else hexToNats tok.toList

def showBytes (l : List Nat) : String :=
  if l.isEmpty then "-" else natsToHex l

def parseChars (tok : String) : Option (List Char) :=
  (parseBytes tok).map (·.map Char.ofNat)

def showChars (l : List Char) : String := showBytes (l.map Char.toNat)

/-- lexicographic order on lists of naturals -/
def ltNats : List Nat → List Nat → Bool
  | [], [] => false
  | [], _ :: _ => true
  | _ :: _, [] => false
  | a :: r, b :: s => if a < b then true else if b < a then false else ltNats r s

def ltChars (a b : List Char) : Bool := ltNats (a.map Char.toNat) (b.map Char.toNat)

def tokens (line : String) : List String :=
  (line.trimAscii.toString.splitOn " ").filter (· ≠ "")

/-- run `step` over every input line, printing one output line per input line -/
partial def lineLoop {σ : Type} (h : IO.FS.Stream) (out : IO.FS.Stream) (s : σ)
    (step : σ → List String → σ × String) : IO Unit := do
  let line ← h.getLine
  if line.isEmpty then
    out.flush
    return ()
  let toks := tokens line
  if toks.isEmpty then
    lineLoop h out s step
  else
    let (s', o) := step s toks
    out.putStrLn o
    lineLoop h out s' step

def runDriver {σ : Type} (init : σ) (step : σ → List String → σ × String) : IO Unit := do
  let stdin ← IO.getStdin
  let stdout ← IO.getStdout
  lineLoop stdin stdout init step

end MassVerif.Driver
