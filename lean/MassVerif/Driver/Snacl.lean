/-
Line-protocol driver of the snacl model (parameter block, box format).
  marshal salt=<hex> digest=<hex> n=<n> r=<n> p=<n>      → <hex of the block>
  unmarshal b=<hex|->                                     → ok salt=<hex> digest=<hex> n=<int> r=<int> p=<int> | err malformed
  decrypt len=<n> opens=<0|1>                             → ok | err malformed | err decryptFailed     (the library's verdict on the box is fed)
-/
import MassVerif.Model.Snacl
import MassVerif.Driver.Util

namespace MassVerif.Driver.Snacl
open MassVerif.Snacl MassVerif.Driver

def field (toks : List String) (name : String) : Option String :=
  (toks.find? (fun t => t.startsWith (name ++ "="))).map (fun t => (t.drop (name.length + 1)).toString)

def step (s : Unit) (toks : List String) : Unit × String :=
  match toks with
  | ["reset"] => (s, "ok")
  | "marshal" :: rest => (s, (do
      let salt ← parseBytes (← field rest "salt")
      let digest ← parseBytes (← field rest "digest")
      let n ← (← field rest "n").toNat?
      let r ← (← field rest "r").toNat?
      let p ← (← field rest "p").toNat?
      pure (showBytes (marshal { salt := salt, digest := digest, n := n, r := r, p := p }))).getD "bad-op")
  | "unmarshal" :: rest => (s, (do
      let b ← parseBytes (← field rest "b")
      pure (match unmarshal b with
        | none => "err malformed"
        | some q => s!"ok salt={showBytes q.salt} digest={showBytes q.digest} n={toInt q.n} r={toInt q.r} p={toInt q.p}")).getD "bad-op")
  | "decrypt" :: rest => (s, (do
      let len ← (← field rest "len").toNat?
      let opens := (← field rest "opens") = "1"
      pure (match decrypt (fun _ _ _ => if opens then some [] else none) [] (List.replicate len 0) with
        | .ok _ => "ok" | .error .malformed => "err malformed" | .error .decryptFailed => "err decryptFailed")).getD "bad-op")
  | _ => (s, "bad-op")

end MassVerif.Driver.Snacl

def main : IO Unit := MassVerif.Driver.runDriver () MassVerif.Driver.Snacl.step
