/-
Line-protocol driver of the bucket-store model (C19).
-/
import MassVerif.Model.BucketStore
import MassVerif.Driver.Util

namespace MassVerif.Driver.C19
open MassVerif.BucketStore MassVerif.Driver

inductive Mode | none | write | read
  deriving DecidableEq

structure St where
  store : Store := { committed := [], tx := none }
  mode : Mode := .none
  handles : List Handle := []      -- id = position

def errName : Err → String
  | .invalidBucketName => "invalidBucketName"
  | .illegalBucketPath => "illegalBucketPath"
  | .illegalValue => "illegalValue"
  | .illegalKey => "illegalKey"
  | .bucketExist => "bucketExist"
  | .notSupported => "notSupported"

def St.cur (s : St) : Flat :=
  match s.mode, s.store.tx with
  | .write, some f => f
  | _, _ => s.store.committed

def St.setCur (s : St) (f : Flat) : St :=
  match s.mode with
  | .write => { s with store := { s.store with tx := some f } }
  | _ => s

def St.addHandle (s : St) (h : Handle) : St × String :=
  ({ s with handles := s.handles ++ [h] }, s!"h {s.handles.length}")

def sortBytes (l : List Bytes) : List Bytes := l.mergeSort (fun a b => !ltChars b a)
def sortEntries (l : Flat) : Flat := l.mergeSort (fun a b => !ltChars b.1 a.1)

def showNames (l : List Bytes) : String :=
  "names " ++ ",".intercalate ((sortBytes l).map showChars)

def step (s : St) (toks : List String) : St × String :=
  let bad := (s, "bad-op")
  let withH (hid : String) (k : Handle → St × String) : St × String :=
    match hid.toNat? with
    | some i => match s.handles[i]? with
      | some h => k h
      | none => bad
    | none => bad
  match toks with
  | ["reset"] => ({}, "ok")
  | ["begin"] => if s.mode ≠ .none then bad else
    ({ s with store := s.store.begin, mode := .write, handles := [] }, "ok")
  | ["rbegin"] => if s.mode ≠ .none then bad else ({ s with mode := .read, handles := [] }, "ok")
  | ["rend"] => if s.mode ≠ .read then bad else ({ s with mode := .none, handles := [] }, "ok")
  | ["commit"] => if s.mode ≠ .write then bad else
    ({ s with store := s.store.commit, mode := .none, handles := [] }, "ok")
  | ["rollback"] => if s.mode ≠ .write then bad else
    ({ s with store := s.store.rollback, mode := .none, handles := [] }, "ok")
  | ["reopen"] => ({ s with store := s.store.reopen, mode := .none, handles := [] }, "ok")
  | ["raw"] => if s.mode ≠ .none then bad else
    -- the whole committed flat store, sorted by the hex form of the keys (as the harness sorts its listing)
    let ents := (s.store.committed.map (fun e => showChars e.1 ++ "=" ++ showChars e.2)).mergeSort (fun a b => a ≤ b)
    (s, if ents.isEmpty then "raw -" else "raw " ++ ",".intercalate ents)
  | _ =>
  if s.mode = .none then bad else
  match toks with
  | ["top", n] =>
    match parseChars n with
    | some name => match topLevelBucket s.cur name with
      | some h => s.addHandle h
      | none => (s, "nil")
    | none => bad
  | ["ctop", n] =>
    if s.mode ≠ .write then bad else
    match parseChars n with
    | some name => match createTopLevelBucket s.cur name with
      | .ok (f, h) => (s.setCur f).addHandle h
      | .error e => (s, "err " ++ errName e)
    | none => bad
  | ["tnames"] =>
    match topBucketNames s.cur with
    | .ok ns => (s, showNames ns)
    | .error e => (s, "err " ++ errName e)
  | ["sub", hid, n] => withH hid fun h =>
    match parseChars n with
    | some name => match bucket s.cur h name with
      | some h' => s.addHandle h'
      | none => (s, "nil")
    | none => bad
  | ["new", hid, n] => withH hid fun h =>
    match parseChars n with
    | some name =>
      if s.mode = .read then (s, "err notSupported") else
      match newBucket s.cur h name with
      | .ok (f, h') => (s.setCur f).addHandle h'
      | .error e => (s, "err " ++ errName e)
    | none => bad
  | ["names", hid] => withH hid fun h =>
    match bucketNames s.cur h with
    | .ok ns => (s, showNames ns)
    | .error e => (s, "err " ++ errName e)
  | ["delb", hid, n] => withH hid fun h =>
    match parseChars n with
    | some name =>
      if s.mode = .read then (s, "err notSupported") else
      match deleteBucket s.cur h name with
      | .ok f => (s.setCur f, "ok")
      | .error e => (s, "err " ++ errName e)
    | none => bad
  | ["put", hid, k, v] => withH hid fun h =>
    match parseChars k, parseChars v with
    | some k, some v =>
      if s.mode = .read then (s, "err notSupported") else
      match put s.cur h k v with
      | .ok f => (s.setCur f, "ok")
      | .error e => (s, "err " ++ errName e)
    | _, _ => bad
  | ["get", hid, k] => withH hid fun h =>
    match parseChars k with
    | some k => match get s.cur h k with
      | some v => (s, "val " ++ showChars v)
      | none => (s, "nil")
    | none => bad
  | ["del", hid, k] => withH hid fun h =>
    match parseChars k with
    | some k =>
      if s.mode = .read then (s, "err notSupported") else
      (s.setCur (delete s.cur h k), "ok")
    | none => bad
  | ["clear", hid] => withH hid fun h =>
    if s.mode = .read then (s, "err notSupported") else
    (s.setCur (clear s.cur h), "ok")
  | ["scan", hid, p] => withH hid fun h =>
    match parseChars p with
    | some p =>
      let es := sortEntries (getByPrefix s.cur h p)
      (s, "entries " ++ ",".intercalate (es.map fun e => showChars e.1 ++ "=" ++ showChars e.2))
    | none => bad
  | ["fetch", hid] => withH hid fun h =>
    match fetchByMeta s.cur h with
    | some h' => s.addHandle h'
    | none => (s, "nil")
  | _ => bad

end MassVerif.Driver.C19

def main : IO Unit := MassVerif.Driver.runDriver ({} : MassVerif.Driver.C19.St) MassVerif.Driver.C19.step
