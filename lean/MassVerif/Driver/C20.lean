/-
Line-protocol driver of the API model (C20).
-/
import MassVerif.Model.Api
import MassVerif.Driver.Util

namespace MassVerif.Driver.C20
open MassVerif.Api MassVerif.Driver

/-- `4:a.b.c.d`, `6:<32 hex>`, `m` -/
def parseAddr (t : String) : Option Addr :=
  if t = "m" then some .malformed
  else if t.startsWith "4:" then
    match ((t.drop 2).toString.splitOn ".").map String.toNat? with
    | [some a, some b, some c, some d] => some (.v4 a b c d)
    | _ => none
  else if t.startsWith "6:" then
    (hexToNats (t.drop 2).toString.toList).map .v6
  else none

def parseList {α} (f : String → Option α) (t : String) : Option (List α) :=
  if t = "-" then some [] else (t.splitOn ",").mapM f

def parseCfg (w wl lans : String) : Option Cfg := do
  let wl ← parseList parseAddr wl
  let lans ← parseList (fun s => some s) lans
  pure { wildcard := w = "1", whitelist := wl, lans := lans }

def step (s : Unit) (toks : List String) : Unit × String :=
  match toks with
  | ["reset"] => (s, "ok")
  | ["allow", w, wl, lans, a] =>
    match parseCfg w wl lans, parseAddr a with
    | some cfg, some a => (s, toString (allowed cfg a))
    | _, _ => (s, "bad-op")
  | ["handler", w, wl, lans, a] =>
    match parseCfg w wl lans, parseAddr a with
    | some cfg, some a =>
      match accessControl cfg (fun _ => ()) a with
      | .forbidden => (s, "403 inner=0")
      | .served _ => (s, "200 inner=1")
    | _, _ => (s, "bad-op")
  | ["a2s", n] =>
    match n.toInt? with
    | some m => match amountToString m with
      | some str => (s, "ok " ++ String.ofList str)
      | none => (s, "err")
    | none => (s, "bad-op")
  | ["s2a", h] =>
    match parseChars h with
    | some cs => match stringToAmount cs with
      | some n => (s, s!"ok {n}")
      | none => (s, "err")
    | none => (s, "bad-op")
  | _ => (s, "bad-op")

end MassVerif.Driver.C20

def main : IO Unit := MassVerif.Driver.runDriver () MassVerif.Driver.C20.step
