/-
Driver for the wallet term model (C04): prints the class the model expects
under a bucket key name / export field.
-/
import MassVerif.Model.WalletTerms
import MassVerif.Driver.Util

namespace MassVerif.Driver.C04
open MassVerif.WalletTerms MassVerif.Driver

def kname : KKey → String
  | .masterPub => "masterPub" | .masterPriv => "masterPriv" | .cryptoPub => "cryptoPub" | .cryptoPriv => "cryptoPriv"

def showPath (p : List Nat) : String := ",".intercalate (p.map toString)

def showTerm : Term → String
  | .seed => "seed"
  | .xprv p => s!"xprv[{showPath p}]"
  | .xpub p => s!"xpub[{showPath p}]"
  | .pubkey _ _ => "pubkey"
  | .key k => s!"key({kname k})"
  | .pass _ => "pass"
  | .params true => "params(priv)"
  | .params false => "params(pub)"
  | .enc k b => s!"enc({kname k},{showTerm b})"
  | .num => "num"
  | .text => "text"
  | .pair a b => s!"pair({showTerm a},{showTerm b})"

def keyName : String → Option KeyName
  | "mpub" => some .mpub | "mpriv" => some .mpriv | "cpub" => some .cpub | "cpriv" => some .cpriv
  | "mhdpriv" => some .mhdpriv | "mhdpub" => some .mhdpub | "account" => some .account | "coinType" => some .coinType
  | "remark" => some .remark | "exbPubKey" => some .exbPubKey | "inbPubKey" => some .inbPubKey
  | "exChildNum" => some .exChildNum | "inChildNum" => some .inChildNum | "accountRow" => some .accountRow
  | "pubRecord" => some .pubRecord | "accountId" => some .accountId
  | _ => none

def fileField : String → Option FileField
  | "remark" => some .remark | "masterHDPrivKeyEnc" => some .masterHDPrivKeyEnc | "pubParams" => some .pubParams
  | "privParams" => some .privParams | "cryptoKeyPubEnc" => some .cryptoKeyPubEnc | "cryptoKeyPrivEnc" => some .cryptoKeyPrivEnc
  | _ => none

def step (s : Unit) (toks : List String) : Unit × String :=
  match toks with
  | ["reset"] => (s, "ok")
  | "op" :: _ => (s, "-")
  | ["put", imp, name] => match keyName name with
    | some k => (s, showTerm (classOf (imp = "1") k))
    | none => (s, "no-such-key-name")          -- the code stores something the model does not know
  | ["file", f] => match fileField f with
    | some f => (s, showTerm (fileClass f))
    | none => (s, "no-such-field")
  | _ => (s, "bad-op")

end MassVerif.Driver.C04

def main : IO Unit := MassVerif.Driver.runDriver () MassVerif.Driver.C04.step
