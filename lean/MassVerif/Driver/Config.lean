/-
Line-protocol driver of the capacity-configuration model (C15).
-/
import MassVerif.Model.Config
import MassVerif.Driver.Util

namespace MassVerif.Driver.Config
open MassVerif.Config MassVerif.Driver

def showWS (l : List WS) : String :=
  let rows := (sortOrd l).map fun w => s!"{w.ord}:{w.bl}:{w.dir}"
  if rows.isEmpty then "-" else ",".intercalate rows

def showIdx (l : List WS) : String :=
  let rows := (sortOrd l).map fun w => s!"{w.ord}:{w.bl}:{w.dir}:{if w.plotted then 1 else 0}"
  if rows.isEmpty then "-" else ",".intercalate rows

def stateStr (k : K) : String :=
  s!"idx={showIdx k.index} using={showWS k.inUse} cfg={if k.configured then 1 else 0} files={showWS k.files} next={k.nextOrd}"

def errName : Err → String
  | .underSize => "underSize" | .configuredNothing => "configuredNothing" | .cannotGenerate => "cannotGenerate"
  | .diskNotEnough => "diskNotEnough" | .invalidRequired => "invalidRequired" | .invalidPathSize => "invalidPathSize"
  | .apiInvalidCapacity => "apiInvalidCapacity"

def resStr (k : K) (r : Res) (viaApi : Bool) : String :=
  match r.err with
  | none => s!"ok sel={showWS (if viaApi then k.inUse else r.selected)} new={showWS r.created} {stateStr k}"
  | some e => s!"err:{errName e} new={showWS r.created} {stateStr k}"

def parsePair (s : String) : Option (Nat × Int) :=
  match s.splitOn ":" with
  | [a, b] => do
    let x ← a.toNat?
    let y ← b.toInt?
    pure (x, y)
  | _ => none

def parsePairN (s : String) : Option (Nat × Nat) :=
  match s.splitOn ":" with
  | [a, b] => do
    let x ← a.toNat?
    let y ← b.toNat?
    pure (x, y)
  | _ => none

/-- the keeper exists only after a `keeper` line -/
structure S where
  k : K := {}
  live : Bool := false

def step (s : S) (toks : List String) : S × String :=
  match toks with
  | ["reset", _] => ({ k := { free := [(0, 2 ^ 36), (1, 2 ^ 36), (2, 2 ^ 36), (3, 2 ^ 36)] } }, "ok")
  | ["seed", d, bl, p] =>
    match d.toNat?, bl.toNat? with
    | some d, some bl =>
      let w : WS := ⟨s.k.nextOrd, bl, d, p == "1"⟩
      ({ s with k := { s.k with files := s.k.files ++ [w], nextOrd := s.k.nextOrd + 1 } }, s!"ok {w.ord}")
    | _, _ => (s, "bad-op")
  | ["free", d, v] =>
    match d.toNat?, v.toNat? with
    | some d, some v => ({ s with k := { s.k with free := (d, v) :: s.k.free.filter (·.1 != d) } }, "ok")
    | _, _ => (s, "bad-op")
  | "keeper" :: ds =>
    match ds.mapM (·.toNat?) with
    | some ds =>
      let k := s.k.restart ds
      ({ k := k, live := true }, "ok " ++ stateStr k)
    | none => (s, "bad-op")
  | ["bysize", t] =>
    match t.toNat? with
    | some t => let (k, r) := s.k.configureBySize t; ({ s with k := k }, resStr k r false)
    | none => (s, "bad-op")
  | ["apisize", c] =>
    match c.toNat? with
    | some c => let (k, r) := s.k.apiConfigureCapacity c; ({ s with k := k }, resStr k r true)
    | none => (s, "bad-op")
  | "bypath" :: es =>
    match es.mapM parsePair with
    | some es => let (k, r) := s.k.configureByPath es; ({ s with k := k }, resStr k r false)
    | none => (s, "bad-op")
  | "apidirs" :: es =>
    match es.mapM parsePairN with
    | some es => let (k, r) := s.k.apiConfigureByDirs es; ({ s with k := k }, resStr k r true)
    | none => (s, "bad-op")
  | "bybl" :: rest =>
    let req := rest.takeWhile (· ≠ "|")
    let order := (rest.dropWhile (· ≠ "|")).drop 1
    match req.mapM parsePairN, order.mapM (·.toNat?) with
    | some req, some order => let (k, r) := s.k.configureByBitLength req order; ({ s with k := k }, resStr k r false)
    | _, _ => (s, "bad-op")
  | ["delete", o] =>
    -- `DeleteWS` (only a space in use, like `RemoveWS`): it leaves the index and the selection and its plot files are erased
    match o.toNat? with
    | some o =>
      if s.k.inUse.any (·.ord == o) then
        let k := { s.k with inUse := s.k.inUse.filter (fun w => w.ord != o), index := s.k.index.filter (fun w => w.ord != o),
                            files := s.k.files.filter (fun w => w.ord != o) }
        ({ s with k := k }, "ok " ++ stateStr k)
      else (s, "err:delete " ++ stateStr s.k)
    | none => (s, "bad-op")
  | ["mine", o] =>
    -- `MineWS`: only a space in use; the configuration state (index, selection, files) is untouched whatever the space's state
    match o.toNat? with
    | some o => if s.k.inUse.any (·.ord == o) then (s, "ok " ++ stateStr s.k) else (s, "err:mine " ++ stateStr s.k)
    | none => (s, "bad-op")
  | ["remove", o] =>
    match o.toNat? with
    | some o =>
      if s.k.inUse.any (·.ord == o) then
        let k := { s.k with inUse := s.k.inUse.filter (fun w => w.ord != o) }
        ({ s with k := k }, "ok " ++ stateStr k)
      else (s, "err:remove " ++ stateStr s.k)
    | none => (s, "bad-op")
  | _ => (s, "bad-op")

end MassVerif.Driver.Config

def main : IO Unit := MassVerif.Driver.runDriver ({} : MassVerif.Driver.Config.S) MassVerif.Driver.Config.step
