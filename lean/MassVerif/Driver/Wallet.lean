/-
Line-protocol driver of the wallet model (shared by C01 C02 C03 C05 C06 C12 C14).
-/
import MassVerif.Model.Wallet
import MassVerif.Driver.Util

namespace MassVerif.Driver.Wallet
open MassVerif.Wallet MassVerif.Driver

/-- `p<id><w|i>` -/
def parsePass (t : String) : Option Pass :=
  if t.startsWith "p" ∧ t.length ≥ 3 then
    let body := (t.drop 1).toString
    let num := (body.take (body.length - 1)).toString
    let flag := (body.drop (body.length - 1)).toString
    match num.toNat? with
    | some n => if flag = "w" then some ⟨n, true⟩ else if flag = "i" then some ⟨n, false⟩ else none
    | none => none
  else none

def parseTamper (t : String) : Option Tamper :=
  match t.splitOn ":" with
  | ["none"] => some .none
  | ["ignored"] => some .ignored
  | ["auth"] => some .authenticated
  | ["notjson"] => some .notJson
  | ["remark", r] => some (.remark (if r = "-" then "" else r))
  | ["ext", n] => n.toNat?.map .ext
  | ["int", n] => n.toNat?.map .int
  | ["account", n] => n.toNat?.map .account
  | _ => none

def remarkOf (t : String) : String := if t = "-" then "" else t
def showRemark (r : String) : String := if r.isEmpty then "-" else r

def errName : Err → String
  | .differentPrivPass => "differentPrivPass" | .illegalPassphrase => "illegalPassphrase"
  | .illegalNewPrivPass => "illegalNewPrivPass" | .illegalSeed => "illegalSeed" | .duplicateSeed => "duplicateSeed"
  | .invalidJson => "invalidJson" | .invalidPassphrase => "invalidPassphrase" | .rejected => "rejected"
  | .accountNotFound => "accountNotFound" | .tooMany => "tooMany" | .locked => "locked" | .badDigest => "badDigest"
  | .samePrivpass => "samePrivpass" | .samePubpass => "samePubpass" | .illegalNewPubPass => "illegalNewPubPass"
  | .openFailed => "openFailed" | .nilPointer => "nilPointer" | .noKey => "noKey"

def showOut : Out → String
  | .ok => "ok"
  | .created id => s!"created {id}"
  | .imported id r => s!"imported {id} {showRemark r}"
  | .file n => s!"file {n}"
  | .keys id internal first count => s!"keys {id} {if internal then 1 else 0} {first} {count}"
  | .ordinal (some n) => s!"ordinal {n}"
  | .ordinal none => "ordinal none"
  | .signed => "signed"
  | .err e => "err " ++ errName e

def b01 (b : Bool) : String := if b then "1" else "0"

def dump (w : W) : String :=
  let ks := w.mem.mergeSort (fun a b => a.id ≤ b.id)
  s!"U={b01 w.unlocked}" ++ String.join (ks.map fun m =>
    s!" [id={m.id} r={showRemark m.remark} e={m.ext} i={m.int} ul={b01 m.unlocked} mu={if w.unlocked then "x" else b01 m.masterUsable}]")

/-- the durable image, as a restart would present it -/
def dumpDur (w : W) : String :=
  let ks := w.dur.mergeSort (fun a b => a.id ≤ b.id)
  "D" ++ String.join (ks.map fun d => s!" [id={d.id} r={showRemark d.remark} e={d.ext} i={d.int} recs={d.ext}/{d.int}]")

def parseOp (toks : List String) : Option Op :=
  match toks with
  | ["new", p, seed, r] => do
    let p ← parsePass p
    if seed = "bad" then pure (.newKs p none false (remarkOf r))
    else if seed.startsWith "s" then pure (.newKs p (← (seed.drop 1).toString.toNat?) true (remarkOf r))
    else none
  | ["import", f, old, new, t] => do
    let new ← if new = "-" then pure none else (parsePass new).map some
    pure (.importKs (← f.toNat?) (← parsePass old) new (← parseTamper t))
  | ["export", id, p] => do pure (.exportKs (← id.toNat?) (← parsePass p))
  | ["delete", id, p] => do pure (.deleteKs (← id.toNat?) (← parsePass p))
  | ["unlock", p] => do pure (.unlock (← parsePass p))
  | ["lock"] => some .lock
  | ["next", id, i, n] => do pure (.next (← id.toNat?) (i = "1") (← n.toNat?))
  | ["genpub", pick] => if pick = "-" then some (.genPub none) else pick.toNat?.map (fun n => .genPub (some n))
  | ["sign", id, i, idx, len] => do pure (.sign (← id.toNat?) (i = "1") (← idx.toNat?) (← len.toNat?))
  | ["signforeign"] => some .signForeign
  | ["ordinal", id, i, idx] => do pure (.ordinal (← id.toNat?) (i = "1") (← idx.toNat?))
  | ["ordinalforeign"] => some .ordinalForeign
  | ["remark", id, r] => do pure (.changeRemark (← id.toNat?) (remarkOf r))
  | ["chpriv", o, n] => do pure (.changePriv (← parsePass o) (← parsePass n))
  | ["chpub", o, n] => do pure (.changePub (← parsePass o) (← parsePass n))
  | ["restart", p] => do pure (.restart (← parsePass p))
  | _ => none

def stepLine (w : W) (toks : List String) : W × String :=
  match toks with
  | ["reset", p] => match parsePass p with
    | some p => ({ pubPass := p }, "ok")
    | none => (w, "bad-op")
  | ["fresh", p] => match parsePass p with
    | some p => ({ pubPass := p, files := w.files }, "ok")     -- another wallet; exported files travel
    | none => (w, "bad-op")
  | "fault" :: kind :: _ :: ":" :: opToks =>
    -- C12: the operation is struck by a storage fault; the model state does not advance (the harness
    -- runs every experiment on a replica) and the line reports what a reopened wallet presents
    match parseOp opToks with
    | none => (w, "bad-op")
    | some op =>
      let (w', o) := step w op
      match o with
      | .err _ => (w, showOut o ++ " | " ++ dumpDur w)        -- fails before any write: the fault cannot fire
      | _ =>
        if kind = "failwrite" ∨ kind = "failcommit" then (w, "err rejected | " ++ dumpDur w)
        else if kind = "crashwrite" then (w, "crashed | " ++ dumpDur w)
        else if kind = "crashcommit" then (w, "crashed | " ++ dumpDur w')
        else (w, "bad-op")
  | ["dump"] => (w, dump w)
  | ["dumpdur"] => (w, dumpDur w)
  | _ => match parseOp toks with
    | some op => let (w', o) := step w op; (w', showOut o)
    | none => (w, "bad-op")

end MassVerif.Driver.Wallet

def main : IO Unit := MassVerif.Driver.runDriver ({} : MassVerif.Wallet.W) MassVerif.Driver.Wallet.stepLine
