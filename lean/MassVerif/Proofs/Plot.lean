/-
Helper lemmas for the plot model (C07, C10).
-/
import MassVerif.Model.Plot

namespace MassVerif.Plot
variable {α : Type}

theorem lastWrite_filter (ws : List (Nat × α)) (q : Nat × α → Bool) (pos : Nat)
    (h : ∀ w ∈ ws, w.1 = pos → q w = true) : lastWrite (ws.filter q) pos = lastWrite ws pos := by
  induction ws with
  | nil => rfl
  | cons w ws ih =>
    obtain ⟨p, v⟩ := w
    have ih' := ih (fun w hw => h w (List.mem_cons_of_mem _ hw))
    by_cases hq : q (p, v) = true
    · simp only [List.filter_cons, hq, if_true, lastWrite, ih']
    · have hne : p ≠ pos := fun e => hq (h (p, v) (by simp) e)
      have hf : List.filter q ((p, v) :: ws) = List.filter q ws := by simp [List.filter_cons, hq]
      rw [hf, ih']
      simp only [lastWrite]
      cases lastWrite ws pos <;> simp [hne]

theorem lastWrite_mem (ws : List (Nat × α)) (pos : Nat) (v : α) (h : lastWrite ws pos = some v) :
    (pos, v) ∈ ws := by
  induction ws with
  | nil => simp [lastWrite] at h
  | cons w ws ih =>
    obtain ⟨p, u⟩ := w
    simp only [lastWrite] at h
    cases hr : lastWrite ws pos with
    | some v' =>
      rw [hr] at h
      simp only [Option.some.injEq] at h
      subst h
      exact List.mem_cons_of_mem _ (ih hr)
    | none =>
      rw [hr] at h
      simp only at h
      split at h
      · rename_i hp
        simp only [Option.some.injEq] at h
        subst h; subst hp
        simp
      · cases h

theorem lastWrite_isSome_of_mem (ws : List (Nat × α)) (pos : Nat) (v : α) (h : (pos, v) ∈ ws) :
    (lastWrite ws pos).isSome = true := by
  induction ws with
  | nil => simp at h
  | cons w ws ih =>
    obtain ⟨p, u⟩ := w
    simp only [List.mem_cons, Prod.mk.injEq] at h
    simp only [lastWrite]
    cases hr : lastWrite ws pos with
    | some v' => rfl
    | none =>
      rcases h with ⟨rfl, rfl⟩ | h
      · simp
      · have := ih h
        rw [hr] at this
        cases this

/-- inside its window a position gets the pass's final value, whatever was there before -/
theorem applyWindow_inside (ws : List (Nat × α)) (t : Table α) (s e pos : Nat) (h1 : s ≤ pos) (h2 : pos < e) :
    applyWindow ws t s e pos = lastWrite ws pos := by
  unfold applyWindow
  simp only [h1, h2, and_self, if_true]
  apply lastWrite_filter
  intro w _ hw
  simp [hw, h1, h2]

theorem applyWindow_outside (ws : List (Nat × α)) (t : Table α) (s e pos : Nat) (h : ¬ (s ≤ pos ∧ pos < e)) :
    applyWindow ws t s e pos = t pos := by
  unfold applyWindow
  simp [h]

/-- the resumption invariant: everything below the checkpoint is final -/
def Final (ws : List (Nat × α)) (st : PassState α) : Prop :=
  ∀ pos, pos < st.checkpoint → st.table pos = lastWrite ws pos

theorem final_window (ws : List (Nat × α)) (st : PassState α) (e : Nat) (h : Final ws st) :
    Final ws { table := applyWindow ws st.table st.checkpoint e, checkpoint := e } := by
  intro pos hp
  simp only at hp ⊢
  by_cases hin : st.checkpoint ≤ pos
  · exact applyWindow_inside ws st.table st.checkpoint e pos hin hp
  · rw [applyWindow_outside ws st.table st.checkpoint e pos (fun hh => hin hh.1)]
    exact h pos (by omega)

theorem final_runWindows (ws : List (Nat × α)) (limit : Nat) (sizes : List Nat) (st : PassState α)
    (h : Final ws st) : Final ws (runWindows ws limit sizes st) := by
  induction sizes generalizing st with
  | nil => exact h
  | cons sz rest ih =>
    simp only [runWindows]
    split
    · exact h
    · exact ih _ (final_window ws st _ h)

theorem runWindows_checkpoint_le (ws : List (Nat × α)) (limit : Nat) (sizes : List Nat) (st : PassState α)
    (h : st.checkpoint ≤ limit) : (runWindows ws limit sizes st).checkpoint ≤ limit := by
  induction sizes generalizing st with
  | nil => exact h
  | cons sz rest ih =>
    simp only [runWindows]
    split
    · exact h
    · exact ih _ (by simp only; omega)

theorem runWindows_checkpoint_mono (ws : List (Nat × α)) (limit : Nat) (sizes : List Nat) (st : PassState α) :
    st.checkpoint ≤ (runWindows ws limit sizes st).checkpoint := by
  induction sizes generalizing st with
  | nil => exact Nat.le_refl _
  | cons sz rest ih =>
    simp only [runWindows]
    split
    · exact Nat.le_refl _
    · rename_i hlt
      have := ih { table := applyWindow ws st.table st.checkpoint (min (st.checkpoint + sz) limit),
                   checkpoint := min (st.checkpoint + sz) limit }
      simp only at this
      omega

/-- progress: `k` windows of at least one position each advance the checkpoint by at least `k` (or finish) -/
theorem runWindows_progress (ws : List (Nat × α)) (limit : Nat) (sizes : List Nat) (st : PassState α)
    (hpos : ∀ sz ∈ sizes, 1 ≤ sz) :
    limit ≤ (runWindows ws limit sizes st).checkpoint ∨
    st.checkpoint + sizes.length ≤ (runWindows ws limit sizes st).checkpoint := by
  induction sizes generalizing st with
  | nil => right; simp [runWindows]
  | cons sz rest ih =>
    simp only [runWindows]
    split
    · left; omega
    · rename_i hlt
      have hsz := hpos sz (by simp)
      have := ih { table := applyWindow ws st.table st.checkpoint (min (st.checkpoint + sz) limit),
                   checkpoint := min (st.checkpoint + sz) limit } (fun s hs => hpos s (List.mem_cons_of_mem _ hs))
      simp only [List.length_cons] at this ⊢
      rcases this with h | h
      · left; exact h
      · by_cases hmin : st.checkpoint + sz ≤ limit
        · right
          simp only [Nat.min_eq_left hmin] at h ⊢
          omega
        · left
          have hm : min (st.checkpoint + sz) limit = limit := Nat.min_eq_right (by omega)
          have hmono := runWindows_checkpoint_mono ws limit rest
            { table := applyWindow ws st.table st.checkpoint (min (st.checkpoint + sz) limit),
              checkpoint := min (st.checkpoint + sz) limit }
          simp only [hm] at hmono ⊢
          exact hmono

end MassVerif.Plot
