/-
Helper lemmas for the API model (C20): decimal digit arithmetic, mask arithmetic.
-/
import MassVerif.Model.Api

namespace MassVerif.Api

/-! ### fixed-width decimal digits -/

/-- `k` decimal digits of `r`, most significant first -/
def pad : Nat → Nat → List Char
  | 0, _ => []
  | k + 1, r => pad k (r / 10) ++ [Nat.digitChar (r % 10)]

theorem pad_length (k r : Nat) : (pad k r).length = k := by
  induction k generalizing r with
  | zero => rfl
  | succ k ih => simp [pad, ih]

theorem toDigits_mul_pow_add {q : Nat} (hq : 0 < q) (k r : Nat) (hr : r < 10 ^ k) :
    Nat.toDigits 10 (q * 10 ^ k + r) = Nat.toDigits 10 q ++ pad k r := by
  induction k generalizing r with
  | zero => simp at hr; subst hr; simp [pad]
  | succ k ih =>
    have h1 : q * 10 ^ (k + 1) + r = 10 * (q * 10 ^ k + r / 10) + r % 10 := by
      have e : q * 10 ^ (k + 1) = 10 * (q * 10 ^ k) := by
        rw [Nat.pow_succ, ← Nat.mul_assoc, Nat.mul_comm]
      rw [e]; omega
    have hpos : 0 < q * 10 ^ k + r / 10 := by
      have : 0 < q * 10 ^ k := Nat.mul_pos hq (Nat.pow_pos (by omega))
      omega
    rw [h1, ← Nat.toDigits_append_toDigits (by omega) hpos (Nat.mod_lt _ (by omega))]
    rw [ih (r / 10) (by rw [Nat.pow_succ] at hr; omega)]
    rw [Nat.toDigits_of_lt_base (Nat.mod_lt _ (by omega))]
    simp [pad]

theorem ofDigitChars_pad (k r init : Nat) (hr : r < 10 ^ k) :
    Nat.ofDigitChars 10 (pad k r) init = 10 ^ k * init + r := by
  induction k generalizing r init with
  | zero => simp at hr; subst hr; simp [pad]
  | succ k ih =>
    simp only [pad]
    rw [Nat.ofDigitChars_append, ih (r / 10) init (by rw [Nat.pow_succ] at hr; omega)]
    rw [Nat.ofDigitChars_cons_digitChar_of_lt_ten (Nat.mod_lt _ (by omega))]
    simp only [Nat.ofDigitChars_nil]
    rw [Nat.pow_succ]
    have : 10 * (10 ^ k * init + r / 10) + r % 10 = 10 ^ k * 10 * init + r := by
      have := Nat.div_add_mod r 10
      rw [Nat.mul_add, ← Nat.mul_assoc, Nat.mul_comm 10 (10 ^ k)]
      omega
    exact this

theorem pad_allDigits (k r : Nat) : allDigits (pad k r) = true := by
  induction k generalizing r with
  | zero => rfl
  | succ k ih =>
    simp only [pad, allDigits, List.all_append, ih, List.all_cons, List.all_nil, Bool.and_true, Bool.true_and]
    have := ih (r / 10)
    simp only [allDigits] at this
    rw [this]
    simp [Nat.isDigit_digitChar, Nat.mod_lt]

theorem toDigits_allDigits (n : Nat) : allDigits (Nat.toDigits 10 n) = true := by
  simp only [allDigits, List.all_eq_true]
  intro c hc
  exact Nat.isDigit_of_mem_toDigits (by omega) (by omega) hc

theorem dot_not_mem_toDigits (n : Nat) : '.' ∉ Nat.toDigits 10 n := by
  intro h
  have := Nat.isDigit_of_mem_toDigits (b := 10) (by omega) (by omega) h
  simp [Char.isDigit] at this

/-! ### trimming -/

theorem ofDigitChars_trimLeft0 (l : List Char) (init : Nat) (h0 : init = 0) :
    Nat.ofDigitChars 10 (trimLeft0 l) init = Nat.ofDigitChars 10 l init := by
  subst h0
  induction l with
  | nil => rfl
  | cons c cs ih =>
    unfold trimLeft0
    by_cases hc : c = '0'
    · subst hc
      simp only [List.dropWhile_cons, beq_self_eq_true, if_true]
      rw [Nat.ofDigitChars_cons]
      exact ih
    · have : (c == '0') = false := by simpa using hc
      simp [List.dropWhile_cons, this]

theorem trimRight0_append_zeros (l : List Char) :
    ∃ z, l = trimRight0 l ++ List.replicate z '0' ∧ z = l.length - (trimRight0 l).length := by
  unfold trimRight0
  have key : ∀ (m : List Char), ∃ z, m = List.replicate z '0' ++ m.dropWhile (· == '0') := by
    intro m
    induction m with
    | nil => exact ⟨0, rfl⟩
    | cons c cs ih =>
      by_cases hc : c = '0'
      · subst hc
        obtain ⟨z, hz⟩ := ih
        refine ⟨z + 1, ?_⟩
        simp only [List.dropWhile_cons, beq_self_eq_true, if_true, List.replicate_succ, List.cons_append]
        rw [← hz]
      · have : (c == '0') = false := by simpa using hc
        exact ⟨0, by simp [List.dropWhile_cons, this]⟩
  obtain ⟨z, hz⟩ := key l.reverse
  refine ⟨z, ?_, ?_⟩
  · have := congrArg List.reverse hz
    simp only [List.reverse_reverse, List.reverse_append, List.reverse_replicate] at this
    exact this
  · have := congrArg List.length hz
    simp only [List.length_reverse, List.length_append, List.length_replicate] at this
    simp only [List.length_reverse]
    omega

theorem trimRight0_idem (l : List Char) : trimRight0 (trimRight0 l) = trimRight0 l := by
  unfold trimRight0
  simp only [List.reverse_reverse]
  congr 1
  generalize l.reverse = m
  induction m with
  | nil => rfl
  | cons c cs ih =>
    by_cases hc : (c == '0') = true
    · simp [List.dropWhile_cons, hc, ih]
    · simp [List.dropWhile_cons, hc]

theorem trimRight0_no_dot {l : List Char} (h : '.' ∉ l) : '.' ∉ trimRight0 l := by
  intro hm
  unfold trimRight0 at hm
  rw [List.mem_reverse] at hm
  have := (List.dropWhile_sublist (fun x => x == '0') (l := l.reverse)).subset hm
  exact h (List.mem_reverse.mp this)

/-- the last character of a non-empty trimmed string is not '0' -/
theorem trimRight0_getLast (l : List Char) (h : trimRight0 l ≠ []) :
    (trimRight0 l).getLast h ≠ '0' := by
  unfold trimRight0 at h ⊢
  rw [List.getLast_reverse]
  have hne : l.reverse.dropWhile (· == '0') ≠ [] := by
    intro e; apply h; rw [e]; rfl
  have := List.head_dropWhile_not (p := (· == '0')) (l := l.reverse) hne
  intro e
  rw [e] at this
  simp at this

/-! ### splitting at the dot -/

theorem splitDot_noDot {a : List Char} (h : '.' ∉ a) : splitDot a = [a] := by
  induction a with
  | nil => rfl
  | cons c cs ih =>
    have hc : c ≠ '.' := fun e => h (by simp [e])
    have hcs : '.' ∉ cs := fun hm => h (List.mem_cons_of_mem _ hm)
    simp [splitDot, hc, ih hcs]

theorem splitDot_append_dot {a : List Char} (h : '.' ∉ a) (r : List Char) :
    splitDot (a ++ '.' :: r) = a :: splitDot r := by
  induction a with
  | nil => simp [splitDot]
  | cons c cs ih =>
    have hc : c ≠ '.' := fun e => h (by simp [e])
    have hcs : '.' ∉ cs := fun hm => h (List.mem_cons_of_mem _ hm)
    simp [splitDot, hc, ih hcs]

/-! ### mask arithmetic of the three RFC1918 rules (byte level, all 256 values) -/

set_option maxRecDepth 8000 in
theorem and240_eq16 : ∀ b, b < 256 → ((b &&& 240 = 16) ↔ (16 ≤ b ∧ b ≤ 31)) := by decide
theorem and255_eq : ∀ n, n < 256 → ∀ b, b < 256 → ((n = b &&& 255) ↔ n = b) := by
  intro n _ b hb
  have : b &&& 255 = b := by
    have := Nat.and_two_pow_sub_one_eq_mod b 8
    simpa [Nat.mod_eq_of_lt hb] using this
  rw [this]

end MassVerif.Api

namespace MassVerif.Api

/-! ### parsing digit strings -/

theorem allDigits_of_sublist {l m : List Char} (h : l.Sublist m) (hm : allDigits m = true) :
    allDigits l = true := by
  simp only [allDigits, List.all_eq_true] at *
  intro c hc
  exact hm c (h.subset hc)

theorem parseInt64_digits (l : List Char) (hne : l ≠ []) (hd : allDigits l = true)
    (hlt : Nat.ofDigitChars 10 l 0 < 2 ^ 63) :
    parseInt64 l = some (Nat.ofDigitChars 10 l 0 : Int) := by
  cases l with
  | nil => exact absurd rfl hne
  | cons c r =>
    have hc : c.isDigit = true := by
      simp only [allDigits, List.all_cons, Bool.and_eq_true] at hd
      exact hd.1
    have hp : c ≠ '+' := by intro e; rw [e] at hc; simp [Char.isDigit] at hc
    have hm : c ≠ '-' := by intro e; rw [e] at hc; simp [Char.isDigit] at hc
    unfold parseInt64
    split
    · rename_i heq; simp only [List.cons.injEq] at heq; exact absurd heq.1 hp
    · rename_i heq; simp only [List.cons.injEq] at heq; exact absurd heq.1 hm
    · simp only [List.isEmpty_cons, hd, Bool.not_true, Bool.or_self, Bool.false_eq_true, if_false]
      simp [hlt]

theorem sIntOf_spec (p0 : List Char) (hd : allDigits p0 = true) :
    sIntOf p0 ≠ [] ∧ allDigits (sIntOf p0) = true ∧
    Nat.ofDigitChars 10 (sIntOf p0) 0 = Nat.ofDigitChars 10 p0 0 := by
  unfold sIntOf
  by_cases ht : (trimLeft0 p0).isEmpty = true
  · simp only [ht, if_true]
    refine ⟨by simp, by decide, ?_⟩
    have := ofDigitChars_trimLeft0 p0 0 rfl
    have he : trimLeft0 p0 = [] := by simpa using ht
    rw [he] at this
    rw [← this]; rfl
  · simp only [ht]
    refine ⟨by simpa using ht, ?_, ofDigitChars_trimLeft0 p0 0 rfl⟩
    exact allDigits_of_sublist (List.dropWhile_sublist _) hd

theorem ofDigitChars_lt_pow (l : List Char) (hd : allDigits l = true) :
    Nat.ofDigitChars 10 l 0 < 10 ^ l.length := by
  induction l with
  | nil => simp
  | cons c cs ih =>
    simp only [allDigits, List.all_cons, Bool.and_eq_true] at hd
    have hl := ih (by simpa [allDigits] using hd.2)
    rw [Nat.ofDigitChars_cons, Nat.ofDigitChars_eq_ofDigitChars_zero]
    have hc : c.toNat - '0'.toNat < 10 := by
      have := (Char.isDigit_iff_toNat.mp hd.1)
      simp at this ⊢
      omega
    simp only [Nat.mul_zero, Nat.zero_add, List.length_cons, Nat.pow_succ]
    have : 10 ^ cs.length * (c.toNat - '0'.toNat) ≤ 10 ^ cs.length * 9 :=
      Nat.mul_le_mul_left _ (by omega)
    omega

/-- no leading zero in the decimal form of a positive number -/
theorem toDigits_head_ne_zero {q : Nat} (hq : 0 < q) : (Nat.toDigits 10 q).head? ≠ some '0' := by
  intro h
  cases hd : Nat.toDigits 10 q with
  | nil => exact absurd hd Nat.toDigits_ne_nil
  | cons c r =>
    rw [hd] at h
    simp only [List.head?_cons, Option.some.injEq] at h
    subst h
    have hval : Nat.ofDigitChars 10 ('0' :: r) 0 = q := by rw [← hd]; exact Nat.ofDigitChars_ten_toDigits
    rw [Nat.ofDigitChars_cons] at hval
    simp only [Nat.mul_zero, Nat.sub_self, Nat.add_zero] at hval
    have hr : allDigits r = true := by
      have := toDigits_allDigits q
      rw [hd] at this
      simp only [allDigits, List.all_cons, Bool.and_eq_true] at this
      exact this.2
    have hlt := ofDigitChars_lt_pow r hr
    rw [hval] at hlt
    by_cases hr0 : r.length = 0
    · simp [hr0] at hlt; omega
    · have := (Nat.length_toDigits_le_iff (b := 10) (n := q) (k := r.length) (by omega) (by omega)).mpr hlt
      rw [hd] at this
      simp only [List.length_cons] at this
      omega

end MassVerif.Api
