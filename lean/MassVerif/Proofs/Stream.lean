/-
Lemmas about the receive-loop model (Model/Stream.lean).
-/
import MassVerif.Model.Stream

namespace MassVerif.Stream

theorem enc32_length (n : Nat) : (enc32 n).length = 4 := rfl

theorem be_enc32 (n : Nat) (h : n < 4294967296) : be (enc32 n) = n := by
  simp only [be, enc32, List.foldl]
  omega

/-- a stopped receiver keeps nothing -/
theorem drain_stopped_rest (max : Nat) (buf : Bytes) : (drain max buf).2.2 = true → (drain max buf).2.1 = [] := by
  fun_induction drain max buf with
  | case1 buf h => simp
  | case2 buf h hz r ih => simpa using ih
  | case3 buf h hz hl => simp
  | case4 buf h hz hl hs => simp
  | case5 buf h hz hl hs r ih => simpa using ih

/-- what a receiver keeps holds no complete unit -/
theorem drain_idem (max : Nat) (buf : Bytes) :
    (drain max buf).2.2 = false → drain max (drain max buf).2.1 = ([], (drain max buf).2.1, false) := by
  fun_induction drain max buf with
  | case1 buf h => intro _; rw [drain]; simp [h]
  | case2 buf h hz r ih => simpa using ih
  | case3 buf h hz hl => simp
  | case4 buf h hz hl hs => intro _; rw [drain]; simp [h, hz, hl, hs]
  | case5 buf h hz hl hs r ih => simpa using ih

/-- **more bytes arriving later**: draining `buf ++ more` is draining `buf` first and then
    what it left over together with `more` -/
theorem drain_append (max : Nat) (buf more : Bytes) :
    drain max (buf ++ more) =
      if (drain max buf).2.2 then ((drain max buf).1, [], true)
      else ((drain max buf).1 ++ (drain max ((drain max buf).2.1 ++ more)).1,
            (drain max ((drain max buf).2.1 ++ more)).2.1, (drain max ((drain max buf).2.1 ++ more)).2.2) := by
  fun_induction drain max buf with
  | case1 buf h => simp
  | case2 buf h hz r ih =>
    have h4 : 4 ≤ buf.length := by omega
    have ht : (buf ++ more).take 4 = buf.take 4 := by rw [List.take_append_of_le_length h4]
    have hd : (buf ++ more).drop 4 = buf.drop 4 ++ more := by rw [List.drop_append_of_le_length h4]
    rw [drain]
    have hl : ¬ (buf ++ more).length < 4 := by simp; omega
    simp only [hl, if_false, ht, hz, if_true, hd]
    rw [ih]
    by_cases hs : r.2.2 = true
    · simp [r, hs] at *
    · simp [r] at hs ⊢; simp [hs]
  | case3 buf h hz hl =>
    have h4 : 4 ≤ buf.length := by omega
    have ht : (buf ++ more).take 4 = buf.take 4 := by rw [List.take_append_of_le_length h4]
    rw [drain]
    have hl' : ¬ (buf ++ more).length < 4 := by simp; omega
    simp only [hl', if_false, ht, hz, hl, if_true]
  | case4 buf h hz hl hs => simp
  | case5 buf h hz hl hs r ih =>
    have h4 : 4 ≤ buf.length := by omega
    have hn : 4 + be (buf.take 4) ≤ buf.length := by omega
    have ht : (buf ++ more).take 4 = buf.take 4 := by rw [List.take_append_of_le_length h4]
    have hd : (buf ++ more).drop (4 + be (buf.take 4)) = buf.drop (4 + be (buf.take 4)) ++ more := by
      rw [List.drop_append_of_le_length hn]
    have hd4 : (buf ++ more).drop 4 = buf.drop 4 ++ more := by rw [List.drop_append_of_le_length h4]
    have hbody : ((buf ++ more).drop 4).take (be (buf.take 4)) = (buf.drop 4).take (be (buf.take 4)) := by
      rw [hd4, List.take_append_of_le_length]; simp; omega
    rw [drain]
    have hl' : ¬ (buf ++ more).length < 4 := by simp; omega
    have hs' : ¬ (buf ++ more).length < 4 + be (buf.take 4) := by simp; omega
    simp only [hl', if_false, ht, hz, hl, hs', hd, hbody]
    rw [ih]
    by_cases hst : r.2.2 = true
    · simp [r, hst] at *
    · simp [r] at hst ⊢; simp [hst]

/-- the receiver's buffer holds no complete unit -/
def Settled (max : Nat) (r : R) : Prop := r.stopped = false → drain max r.buf = ([], r.buf, false)

theorem settled_init (max : Nat) : Settled max {} := by
  intro _; rw [drain]; simp

theorem feed_settled (max : Nat) (r : R) (c : Bytes) (h : Settled max r) : Settled max (feed max r c).1 := by
  unfold feed
  by_cases hs : r.stopped = true
  · simp [hs]; intro h'; simp [hs] at h'
  · simp [hs]; intro h'; exact drain_idem max _ h'

end MassVerif.Stream
