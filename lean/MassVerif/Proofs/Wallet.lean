/-
Invariant of the wallet model and its preservation by every operation.
-/
import MassVerif.Model.Wallet

namespace MassVerif.Wallet

/-- what an observer sees of a keystore: identity, remark, counters (= address sets) -/
abbrev View := Nat × String × Nat × Nat
def projD (d : KsD) : View := (d.id, d.remark, d.ext, d.int)
def projM (m : KsM) : View := (m.id, m.remark, m.ext, m.int)

structure Inv (w : W) : Prop where
  /-- memory shows exactly the durable image -/
  coherent : w.mem.map projM = w.dur.map projD
  nodup : (w.dur.map (·.id)).Nodup
  /-- one private passphrase seals every keystore -/
  onePriv : ∀ d ∈ w.dur, ∀ d' ∈ w.dur, d.priv = d'.priv
  /-- the public hierarchy of every keystore is sealed under the current public passphrase -/
  pubSealed : ∀ d ∈ w.dur, d.pub = w.pubPass.id
  lockFlag : ∀ m ∈ w.mem, m.unlocked = w.unlocked
  /-- a locked wallet holds no usable master key -/
  lockedClean : w.unlocked = false → ∀ m ∈ w.mem, m.masterUsable = false

theorem inv_init (p : Pass) : Inv { pubPass := p } :=
  ⟨rfl, by simp, by simp, by simp, by simp, by simp⟩

/-! ### list helpers -/

theorem map_if_proj {α β : Type} (l : List α) (c : α → Bool) (f : α → α) (p : α → β)
    (h : ∀ a, p (f a) = p a) : (l.map (fun a => if c a then f a else a)).map p = l.map p := by
  induction l with
  | nil => rfl
  | cons a l ih =>
    simp only [List.map_cons, ih]
    by_cases hc : c a = true <;> simp [hc, h]

theorem coherent_set (mem : List KsM) (dur : List KsD) (id : Nat) (fm : KsM → KsM) (fd : KsD → KsD)
    (h : mem.map projM = dur.map projD)
    (hf : ∀ m d, projM m = projD d → projM (fm m) = projD (fd d)) :
    (mem.map (fun m => if m.id == id then fm m else m)).map projM =
    (dur.map (fun d => if d.id == id then fd d else d)).map projD := by
  induction mem generalizing dur with
  | nil => cases dur with
    | nil => rfl
    | cons _ _ => simp at h
  | cons m mem ih =>
    cases dur with
    | nil => simp at h
    | cons d dur =>
      simp only [List.map_cons, List.cons.injEq] at h ⊢
      obtain ⟨h1, h2⟩ := h
      have hid : m.id = d.id := by
        have := congrArg Prod.fst h1; exact this
      refine ⟨?_, ih dur h2⟩
      rw [hid]
      by_cases hc : (d.id == id) = true
      · simp [hc, hf m d h1]
      · simp [hc, h1]

theorem coherent_filter (mem : List KsM) (dur : List KsD) (id : Nat)
    (h : mem.map projM = dur.map projD) :
    (mem.filter (·.id != id)).map projM = (dur.filter (·.id != id)).map projD := by
  induction mem generalizing dur with
  | nil => cases dur with
    | nil => rfl
    | cons _ _ => simp at h
  | cons m mem ih =>
    cases dur with
    | nil => simp at h
    | cons d dur =>
      simp only [List.map_cons, List.cons.injEq] at h
      obtain ⟨h1, h2⟩ := h
      have hid : m.id = d.id := congrArg Prod.fst h1
      simp only [List.filter_cons, hid]
      by_cases hc : (d.id != id) = true
      · simp [hc, h1, ih dur h2]
      · simp [hc, ih dur h2]

theorem ids_of_coherent {mem : List KsM} {dur : List KsD} (h : mem.map projM = dur.map projD) :
    mem.map (·.id) = dur.map (·.id) := by
  have := congrArg (List.map Prod.fst) h
  simpa [List.map_map, Function.comp_def, projM, projD] using this

theorem findD_some_mem {w : W} {id : Nat} {d : KsD} (h : findD w id = some d) : d ∈ w.dur ∧ d.id = id := by
  unfold findD at h
  exact ⟨List.mem_of_find?_eq_some h, by simpa using List.find?_some h⟩

theorem findD_none {w : W} {id : Nat} (h : (findD w id).isSome = false) : id ∉ w.dur.map (·.id) := by
  intro hm
  obtain ⟨d, hd, rfl⟩ := List.mem_map.mp hm
  unfold findD at h
  have : (w.dur.find? (·.id == d.id)).isSome = true := by
    rw [List.find?_isSome]
    exact ⟨d, hd, by simp⟩
  rw [this] at h; cases h

theorem setDur_ids (w : W) (id : Nat) (f : KsD → KsD) (hf : ∀ d, (f d).id = d.id) :
    (setDur w id f).dur.map (·.id) = w.dur.map (·.id) := by
  unfold setDur
  exact map_if_proj w.dur (fun d => d.id == id) f (·.id) hf

/-! ### small-step preservation lemmas -/

theorem inv_setMem_flags {w : W} (h : Inv w) (id : Nat) (f : KsM → KsM)
    (hp : ∀ m, projM (f m) = projM m) (hu : ∀ m, (f m).unlocked = m.unlocked)
    (hm : ∀ m, (f m).masterUsable = true → m.masterUsable = true) : Inv (setMem w id f) := by
  refine ⟨?_, h.nodup, h.onePriv, h.pubSealed, ?_, ?_⟩
  · unfold setMem
    simp only
    rw [map_if_proj w.mem (fun m => m.id == id) f projM hp]
    exact h.coherent
  · intro m hm'
    simp only [setMem, List.mem_map] at hm'
    obtain ⟨m0, hm0, rfl⟩ := hm'
    have hun : (setMem w id f).unlocked = w.unlocked := rfl
    by_cases hc : (m0.id == id) = true
    · simp [hc, hu, h.lockFlag m0 hm0, hun]
    · simp [hc, h.lockFlag m0 hm0, hun]
  · intro hl m hm'
    simp only [setMem, List.mem_map] at hm'
    obtain ⟨m0, hm0, rfl⟩ := hm'
    have := h.lockedClean hl m0 hm0
    by_cases hc : (m0.id == id) = true
    · simp only [hc, if_true]
      cases hh : (f m0).masterUsable with
      | false => rfl
      | true => rw [hm m0 hh] at this; cases this
    · simp [hc, this]

theorem inv_zeroMaster {w : W} (h : Inv w) (id : Nat) : Inv (zeroMaster w id) :=
  inv_setMem_flags h id _ (fun _ => rfl) (fun _ => rfl) (fun _ hh => by simp at hh)

theorem inv_zeroHead {w : W} (h : Inv w) : Inv (zeroHead w) := by
  unfold zeroHead
  cases w.mem with
  | nil => exact h
  | cons m _ => exact inv_zeroMaster h m.id

@[simp] theorem zeroHead_dur (w : W) : (zeroHead w).dur = w.dur := by
  unfold zeroHead; cases w.mem <;> rfl
@[simp] theorem zeroHead_unlocked (w : W) : (zeroHead w).unlocked = w.unlocked := by
  unfold zeroHead; cases w.mem <;> rfl
@[simp] theorem zeroHead_pub (w : W) : (zeroHead w).pubPass = w.pubPass := by
  unfold zeroHead; cases w.mem <;> rfl
@[simp] theorem zeroHead_files (w : W) : (zeroHead w).files = w.files := by
  unfold zeroHead; cases w.mem <;> rfl

/-- the passphrase check against one keystore decides for all of them -/
theorem checkOne_all {w : W} (h : Inv w) {p : Pass} (hc : checkOne w p = true) :
    ∀ d ∈ w.dur, d.priv = p.id := by
  unfold checkOne at hc
  cases hm : w.mem with
  | nil =>
    have : w.dur.map projD = [] := by rw [← h.coherent, hm]; rfl
    have : w.dur = [] := by simpa using this
    intro d hd; rw [this] at hd; cases hd
  | cons m rest =>
    rw [hm] at hc
    simp only at hc
    have hids := ids_of_coherent h.coherent
    rw [hm] at hids
    cases hf : findD w m.id with
    | none =>
      -- impossible: the head of memory is a durable keystore
      exfalso
      have : m.id ∈ w.dur.map (·.id) := by rw [← hids]; simp
      exact findD_none (by rw [hf]; rfl) this
    | some d0 =>
      rw [hf] at hc
      obtain ⟨hd0, _⟩ := findD_some_mem hf
      have e0 : d0.priv = p.id := by simpa using hc
      intro d hd
      rw [h.onePriv d hd d0 hd0, e0]

theorem inv_addKs {w : W} (h : Inv w) (d : KsD) (hnew : d.id ∉ w.dur.map (·.id))
    (hpriv : ∀ d' ∈ w.dur, d'.priv = d.priv) (hpub : d.pub = w.pubPass.id) : Inv (addKs w d) := by
  unfold addKs
  refine ⟨?_, ?_, ?_, ?_, ?_, ?_⟩
  · simp only [List.map_append, h.coherent, List.map_cons, List.map_nil]
    congr 1
    by_cases hu : w.unlocked = true <;> simp [hu, load, projM, projD]
  · simp only [List.map_append, List.map_cons, List.map_nil]
    rw [List.nodup_append]
    refine ⟨h.nodup, by simp, ?_⟩
    intro a ha b hb
    simp only [List.mem_singleton] at hb
    subst hb
    intro e; subst e; exact hnew ha
  · intro a ha b hb
    simp only [List.mem_append, List.mem_singleton] at ha hb
    rcases ha with ha | rfl <;> rcases hb with hb | rfl
    · exact h.onePriv a ha b hb
    · exact hpriv a ha
    · exact (hpriv b hb).symm
    · rfl
  · intro a ha
    simp only [List.mem_append, List.mem_singleton] at ha
    rcases ha with ha | rfl
    · exact h.pubSealed a ha
    · exact hpub
  · intro m hm
    simp only [List.mem_append, List.mem_singleton] at hm
    rcases hm with hm | rfl
    · exact h.lockFlag m hm
    · by_cases hu : w.unlocked = true <;> simp [hu, load]
  · intro hl m hm
    simp only at hl
    simp only [List.mem_append, List.mem_singleton] at hm
    rcases hm with hm | rfl
    · exact h.lockedClean hl m hm
    · simp [hl, load]


theorem findD_zeroHead (w : W) (id : Nat) : findD (zeroHead w) id = findD w id := by
  unfold findD; rw [zeroHead_dur]

/-! ### every operation preserves the invariant -/

theorem inv_newKs {w : W} (h : Inv w) (priv : Pass) (seed : Option Nat) (ok : Bool) (r : String) :
    Inv (step w (.newKs priv seed ok r)).1 := by
  simp only [step]
  split
  · exact h
  · rename_i hc
    have hc' : checkOne w priv = true := by simpa using hc
    have h1 := inv_zeroHead h
    split; · exact h1
    split; · exact h1
    split; · exact h1
    split; · exact h1
    split
    · exact h1
    · rename_i id
      split
      · exact h1
      · rename_i hnone
        apply inv_addKs h1
        · rw [zeroHead_dur]
          exact findD_none (by simpa using hnone)
        · intro d hd; rw [zeroHead_dur] at hd; exact checkOne_all h hc' d hd
        · simp

theorem inv_importFile {w : W} (h : Inv w) (f : File) (newP : Pass)
    (hc : ∀ d ∈ w.dur, d.priv = newP.id) : Inv (importFile w (zeroHead w) f newP).1 := by
  unfold importFile
  have h1 := inv_zeroHead h
  split
  · exact h1
  · rename_i hnone
    apply inv_addKs h1
    · rw [zeroHead_dur]
      exact findD_none (by simpa using hnone)
    · intro d hd; rw [zeroHead_dur] at hd; exact hc d hd
    · simp

theorem inv_importKs {w : W} (h : Inv w) (f : Nat) (old : Pass) (new : Option Pass) (t : Tamper) :
    Inv (step w (.importKs f old new t)).1 := by
  cases new <;> simp only [step] <;> (
  split; · exact h
  split; · exact h
  split; · exact h
  rename_i hc
  have hc' := checkOne_all h (by simpa using hc)
  have h1 := inv_zeroHead h
  split
  · exact h1
  · exact h1
  · split; · exact h1
    split; · exact h1
    exact inv_importFile h _ _ hc')

theorem inv_exportKs {w : W} (h : Inv w) (id : Nat) (p : Pass) : Inv (step w (.exportKs id p)).1 := by
  simp only [step]
  split
  · split
    · exact h
    · have h1 := inv_zeroMaster h id
      exact ⟨h1.coherent, h1.nodup, h1.onePriv, h1.pubSealed, h1.lockFlag, h1.lockedClean⟩
  · exact h

theorem inv_deleteKs {w : W} (h : Inv w) (id : Nat) (p : Pass) : Inv (step w (.deleteKs id p)).1 := by
  simp only [step]
  split
  · split
    · exact h
    · refine ⟨coherent_filter _ _ id h.coherent, ?_, ?_, ?_, ?_, ?_⟩
      · exact List.Nodup.sublist (List.Sublist.map _ List.filter_sublist) h.nodup
      · intro a ha b hb
        exact h.onePriv a ((List.mem_filter.mp ha).1) b ((List.mem_filter.mp hb).1)
      · intro a ha; exact h.pubSealed a ((List.mem_filter.mp ha).1)
      · intro m hm; exact h.lockFlag m ((List.mem_filter.mp hm).1)
      · intro hl m hm; exact h.lockedClean hl m ((List.mem_filter.mp hm).1)
  · exact h

theorem inv_mapMem {w : W} (h : Inv w) (u : Bool) (f : KsM → KsM)
    (hp : ∀ m, projM (f m) = projM m) (hu : ∀ m, (f m).unlocked = u)
    (hm : u = false → ∀ m, (f m).masterUsable = false) :
    Inv { w with unlocked := u, mem := w.mem.map f } := by
  refine ⟨?_, h.nodup, h.onePriv, h.pubSealed, ?_, ?_⟩
  · simp only [List.map_map]
    rw [← h.coherent]
    apply List.map_congr_left
    intro m _; exact hp m
  · intro m hm'
    obtain ⟨m0, _, rfl⟩ := List.mem_map.mp hm'
    exact hu m0
  · intro hl m hm'
    obtain ⟨m0, _, rfl⟩ := List.mem_map.mp hm'
    exact hm hl m0

theorem inv_unlock {w : W} (h : Inv w) (p : Pass) : Inv (step w (.unlock p)).1 := by
  simp only [step]
  split
  · exact h
  · exact inv_mapMem h true _ (fun _ => rfl) (fun _ => rfl) (fun e => by cases e)

theorem inv_lock {w : W} (h : Inv w) : Inv (step w .lock).1 := by
  simp only [step]
  exact inv_mapMem h false _ (fun _ => rfl) (fun _ => rfl) (fun _ _ => rfl)

/-- a counter / remark update applied to the same keystore in both images -/
theorem inv_setBoth {w : W} (h : Inv w) (id : Nat) (fd : KsD → KsD) (fm : KsM → KsM)
    (hproj : ∀ m d, projM m = projD d → projM (fm m) = projD (fd d))
    (hid : ∀ d, (fd d).id = d.id) (hpriv : ∀ d, (fd d).priv = d.priv) (hpub : ∀ d, (fd d).pub = d.pub)
    (hu : ∀ m, (fm m).unlocked = m.unlocked) (hmu : ∀ m, (fm m).masterUsable = m.masterUsable) :
    Inv (setMem (setDur w id fd) id fm) := by
  refine ⟨?_, ?_, ?_, ?_, ?_, ?_⟩
  · exact coherent_set w.mem w.dur id fm fd h.coherent hproj
  · have := setDur_ids w id fd hid
    simp only [setMem, setDur] at this ⊢
    rw [this]; exact h.nodup
  · intro a ha b hb
    simp only [setMem, setDur, List.mem_map] at ha hb
    obtain ⟨a0, ha0, rfl⟩ := ha
    obtain ⟨b0, hb0, rfl⟩ := hb
    have := h.onePriv a0 ha0 b0 hb0
    by_cases c1 : (a0.id == id) = true <;> by_cases c2 : (b0.id == id) = true <;> simp [c1, c2, hpriv, this]
  · intro a ha
    simp only [setMem, setDur, List.mem_map] at ha
    obtain ⟨a0, ha0, rfl⟩ := ha
    have := h.pubSealed a0 ha0
    have e : (setMem (setDur w id fd) id fm).pubPass = w.pubPass := rfl
    by_cases c1 : (a0.id == id) = true <;> simp [c1, hpub, this, e]
  · intro m hm
    simp only [setMem, setDur, List.mem_map] at hm
    obtain ⟨m0, hm0, rfl⟩ := hm
    have := h.lockFlag m0 hm0
    have e : (setMem (setDur w id fd) id fm).unlocked = w.unlocked := rfl
    by_cases c1 : (m0.id == id) = true <;> simp [c1, hu, this, e]
  · intro hl m hm
    have e : (setMem (setDur w id fd) id fm).unlocked = w.unlocked := rfl
    rw [e] at hl
    simp only [setMem, setDur, List.mem_map] at hm
    obtain ⟨m0, hm0, rfl⟩ := hm
    have := h.lockedClean hl m0 hm0
    by_cases c1 : (m0.id == id) = true <;> simp [c1, hmu, this]

theorem inv_next {w : W} (h : Inv w) (id : Nat) (internal : Bool) (n : Nat) :
    Inv (step w (.next id internal n)).1 := by
  cases internal <;> simp only [step, Bool.false_eq_true, if_false, if_true] <;> (
  split
  · split
    · exact h
    · apply inv_setBoth h
      · intro m d hmd
        simp only [projM, projD, Prod.mk.injEq] at hmd ⊢
        obtain ⟨a, b, c, e⟩ := hmd
        simp [a, b, c, e]
      all_goals intro _; rfl
  · exact h)

theorem inv_genPub {w : W} (h : Inv w) (pick : Option Nat) : Inv (step w (.genPub pick)).1 := by
  simp only [step]
  split
  · exact h
  · split
    · split
      · exact h
      · apply inv_setBoth h
        · intro m d hmd
          simp only [projM, projD, Prod.mk.injEq] at hmd ⊢
          obtain ⟨a, b, c, e⟩ := hmd
          simp [a, b, c, e]
        all_goals intro _; rfl
    · exact h

theorem inv_changeRemark {w : W} (h : Inv w) (id : Nat) (r : String) :
    Inv (step w (.changeRemark id r)).1 := by
  simp only [step]
  split
  · apply inv_setBoth h
    · intro m d hmd
      simp only [projM, projD, Prod.mk.injEq] at hmd ⊢
      obtain ⟨a, _, c, e⟩ := hmd
      simp [a, c, e]
    all_goals intro _; rfl
  · exact h

theorem inv_changePriv {w : W} (h : Inv w) (old new : Pass) : Inv (step w (.changePriv old new)).1 := by
  simp only [step]
  split; · exact h
  split; · exact h
  split; · exact h
  split; · exact h
  refine ⟨?_, ?_, ?_, ?_, ?_, ?_⟩
  · simp only [List.map_map]
    rw [show (projM ∘ fun m : KsM => { m with masterUsable := m.unlocked }) = projM from rfl,
      show (projD ∘ fun d : KsD => { d with priv := new.id }) = projD from rfl]
    exact h.coherent
  · simp only [List.map_map]
    rw [show ((fun x : KsD => x.id) ∘ fun d : KsD => { d with priv := new.id }) = (fun x : KsD => x.id) from rfl]
    exact h.nodup
  · intro a ha b hb
    obtain ⟨a0, _, rfl⟩ := List.mem_map.mp ha
    obtain ⟨b0, _, rfl⟩ := List.mem_map.mp hb
    rfl
  · intro a ha
    obtain ⟨a0, ha0, rfl⟩ := List.mem_map.mp ha
    exact h.pubSealed a0 ha0
  · intro m hm
    obtain ⟨m0, hm0, rfl⟩ := List.mem_map.mp hm
    exact h.lockFlag m0 hm0
  · intro hl m hm
    obtain ⟨m0, hm0, rfl⟩ := List.mem_map.mp hm
    simp only at hl ⊢
    rw [h.lockFlag m0 hm0]; exact hl

theorem inv_changePub {w : W} (h : Inv w) (old new : Pass) : Inv (step w (.changePub old new)).1 := by
  simp only [step]
  split; · exact h
  split; · exact h
  split; · exact h
  split; · exact h
  refine ⟨?_, ?_, ?_, ?_, h.lockFlag, h.lockedClean⟩
  · simp only [List.map_map]
    rw [show (projD ∘ fun d : KsD => { d with pub := new.id }) = projD from rfl]
    exact h.coherent
  · simp only [List.map_map]
    rw [show ((fun x : KsD => x.id) ∘ fun d : KsD => { d with pub := new.id }) = (fun x : KsD => x.id) from rfl]
    exact h.nodup
  · intro a ha b hb
    obtain ⟨a0, ha0, rfl⟩ := List.mem_map.mp ha
    obtain ⟨b0, hb0, rfl⟩ := List.mem_map.mp hb
    exact h.onePriv a0 ha0 b0 hb0
  · intro a ha
    obtain ⟨a0, _, rfl⟩ := List.mem_map.mp ha
    rfl

theorem inv_restart {w : W} (h : Inv w) (p : Pass) : Inv (step w (.restart p)).1 := by
  simp only [step]
  split; · exact h
  split
  · exact h
  · rename_i hall
    refine ⟨?_, h.nodup, h.onePriv, ?_, ?_, ?_⟩
    · simp only [List.map_map]
      rfl
    · intro d hd
      simp only [List.any_eq_true, not_exists, not_and, Bool.not_eq_true] at hall
      have := hall d hd
      simpa using this
    · intro m hm
      obtain ⟨d, _, rfl⟩ := List.mem_map.mp hm
      rfl
    · intro _ m hm
      obtain ⟨d, _, rfl⟩ := List.mem_map.mp hm
      rfl

/-- **Every operation preserves the invariant.** -/
theorem step_inv (w : W) (h : Inv w) (op : Op) : Inv (step w op).1 := by
  cases op with
  | newKs p s ok r => exact inv_newKs h p s ok r
  | importKs f o n t => exact inv_importKs h f o n t
  | exportKs id p => exact inv_exportKs h id p
  | deleteKs id p => exact inv_deleteKs h id p
  | unlock p => exact inv_unlock h p
  | lock => exact inv_lock h
  | next id i n => exact inv_next h id i n
  | genPub pick => exact inv_genPub h pick
  | sign id i idx l =>
    have : (step w (.sign id i idx l)).1 = w := by
      simp only [step]; (repeat' split) <;> rfl
    rw [this]; exact h
  | signForeign => exact h
  | ordinal id i idx =>
    have : (step w (.ordinal id i idx)).1 = w := by
      simp only [step]; (repeat' split) <;> rfl
    rw [this]; exact h
  | ordinalForeign => exact h
  | changeRemark id r => exact inv_changeRemark h id r
  | changePriv o n => exact inv_changePriv h o n
  | changePub o n => exact inv_changePub h o n
  | restart p => exact inv_restart h p

theorem run_inv (w : W) (h : Inv w) (ops : List Op) : Inv (run w ops) := by
  induction ops generalizing w with
  | nil => exact h
  | cons op ops ih => exact ih _ (step_inv w h op)

end MassVerif.Wallet
