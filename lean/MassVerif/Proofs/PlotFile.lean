/-
Helper lemmas for the byte-level plot-file model (C07, C10, C11).
-/
import MassVerif.Model.PlotFile
import MassVerif.Proofs.Plot

namespace MassVerif.PlotFile
open MassVerif.Plot

theorem readLE_congr (f g : Bytes) (off L : Nat) (h : ∀ j, off ≤ j → j < off + L → f j = g j) :
    readLE f off L = readLE g off L := by
  induction L generalizing off with
  | zero => rfl
  | succ L ih =>
    simp only [readLE]
    rw [h off (Nat.le_refl _) (by omega), ih (off + 1) (fun j h1 h2 => h j (by omega) (by omega))]

theorem readLE_zero (off L : Nat) : readLE zeroCache off L = 0 := by
  induction L generalizing off with
  | zero => rfl
  | succ L ih => simp [readLE, ih, zeroCache]

theorem readLE_lt (f : Bytes) (off L : Nat) (hb : ∀ j, f j < 256) : readLE f off L < 256 ^ L := by
  induction L generalizing off with
  | zero => simp [readLE]
  | succ L ih =>
    simp only [readLE]
    have h1 := hb off
    have h2 := ih (off + 1)
    rw [Nat.pow_succ]
    omega

/-- the `L` little-endian bytes of `v`, read back: `v mod 256^L` -/
theorem readLE_leByte (v t k L : Nat) :
    readLE (fun j => leByte v (j - t)) (t + k) L = v / 256 ^ k % 256 ^ L := by
  induction L generalizing k with
  | zero => simp [readLE, Nat.mod_one]
  | succ L ih =>
    simp only [readLE]
    have h := ih (k + 1)
    rw [show t + k + 1 = t + (k + 1) by omega, h]
    have e1 : t + k - t = k := by omega
    simp only [e1, leByte]
    rw [Nat.pow_succ 256 k, ← Nat.div_div_eq_div_mul, Nat.pow_succ 256 L, Nat.mul_comm (256 ^ L) 256, Nat.mod_mul]

theorem readLE_writeRec_same (c : Bytes) (t L v : Nat) (hv : v < 256 ^ L) :
    readLE (writeRec c t L v) t L = v := by
  have h := readLE_congr (writeRec c t L v) (fun j => leByte v (j - t)) t L
    (fun j h1 h2 => by simp [writeRec, h1, h2])
  rw [h]
  have := readLE_leByte v t 0 L
  simp only [Nat.add_zero, Nat.pow_zero, Nat.div_one] at this
  rw [this, Nat.mod_eq_of_lt hv]

theorem readLE_writeRec_other (c : Bytes) (t L v t' : Nat) (h : t' + L ≤ t ∨ t + L ≤ t') :
    readLE (writeRec c t L v) t' L = readLE c t' L := by
  apply readLE_congr
  intro j h1 h2
  have : ¬ (t ≤ j ∧ j < t + L) := by omega
  simp [writeRec, this]

/-- the cache step of one write -/
def cacheStep (L s e : Nat) (c : Bytes) (w : Nat × Nat) : Bytes :=
  if s ≤ w.1 ∧ w.1 < e then writeRec c ((w.1 - s) * L) L w.2 else c

theorem fillCache_eq (ws : List (Nat × Nat)) (L s e : Nat) :
    fillCache ws L s e = ws.foldl (cacheStep L s e) zeroCache := rfl

/-- a record of the filled cache is the last write to it (or what the cache held) -/
theorem readLE_fold (ws : List (Nat × Nat)) (L s e : Nat) (c0 : Bytes) (r : Nat) (hs : s ≤ r) (hr : r < e)
    (hv : ∀ w ∈ ws, w.2 < 256 ^ L) :
    readLE (ws.foldl (cacheStep L s e) c0) ((r - s) * L) L =
      (lastWrite ws r).getD (readLE c0 ((r - s) * L) L) := by
  induction ws generalizing c0 with
  | nil => simp [lastWrite]
  | cons w ws ih =>
    obtain ⟨p, v⟩ := w
    simp only [List.foldl_cons]
    rw [ih (cacheStep L s e c0 (p, v)) (fun w hw => hv w (List.mem_cons_of_mem _ hw))]
    simp only [lastWrite]
    cases hl : lastWrite ws r with
    | some v' => simp
    | none =>
      simp only [Option.getD_none]
      have hvv : v < 256 ^ L := hv (p, v) (by simp)
      by_cases hp : p = r
      · subst hp
        simp [cacheStep, hs, hr, readLE_writeRec_same _ _ _ _ hvv]
      · simp only [hp, if_false, Option.getD_none]
        unfold cacheStep
        split
        · rename_i hw
          apply readLE_writeRec_other
          simp only at hw
          rcases Nat.lt_or_gt_of_ne hp with h | h
          · right
            have h1 : (p - s) + 1 ≤ r - s := by omega
            have h2 := Nat.mul_le_mul_right L h1
            rw [Nat.add_mul, Nat.one_mul] at h2
            exact h2
          · left
            have h1 : (r - s) + 1 ≤ p - s := by omega
            have h2 := Nat.mul_le_mul_right L h1
            rw [Nat.add_mul, Nat.one_mul] at h2
            exact h2
        · rfl

theorem readLE_flush_in (f : Bytes) (off clen : Nat) (c : Bytes) (t L : Nat) (h : t + L ≤ clen) :
    readLE (flush f off clen c) (off + t) L = readLE c t L := by
  induction L generalizing t with
  | zero => rfl
  | succ L ih =>
    simp only [readLE]
    rw [show off + t + 1 = off + (t + 1) by omega, ih (t + 1) (by omega)]
    have h1 : off ≤ off + t ∧ off + t < off + clen := by omega
    have h2 : off + t - off = t := by omega
    simp [flush, h1, h2]

theorem readLE_flush_before (f : Bytes) (off clen : Nat) (c : Bytes) (t L : Nat) (h : t + L ≤ off) :
    readLE (flush f off clen c) t L = readLE f t L := by
  apply readLE_congr
  intro j h1 h2
  have : ¬ (off ≤ j ∧ j < off + clen) := by omega
  simp [flush, this]

theorem readLE_flush_after (f : Bytes) (off clen : Nat) (c : Bytes) (t L : Nat) (h : off + clen ≤ t) :
    readLE (flush f off clen c) t L = readLE f t L := by
  apply readLE_congr
  intro j h1 h2
  have : ¬ (off ≤ j ∧ j < off + clen) := by omega
  simp [flush, this]

/-- **One window, bytes vs. records.**  Below the window's end the data region, read record by record,
    is what the record-level window defines - whatever the cache length, as long as the window fits it. -/
theorem window_abs (ws : List (Nat × Nat)) (L clen : Nat) (f : Bytes) (s e : Nat)
    (hfit : (e - s) * L ≤ clen) (hv : ∀ w ∈ ws, w.2 < 256 ^ L ∧ w.2 ≠ 0) :
    ∀ r, r < e → absRec (windowBytes ws L clen f s e) L r = applyWindow ws (absRec f L) s e r := by
  intro r hr
  unfold absRec applyWindow windowBytes
  by_cases hs : s ≤ r
  · have hfilt : lastWrite (ws.filter (fun w => decide (s ≤ w.1 ∧ w.1 < e))) r = lastWrite ws r :=
      lastWrite_filter ws _ r (fun w _ hw => by simp [hw, hs, hr])
    have hoff : r * L = s * L + (r - s) * L := by
      rw [← Nat.add_mul]; congr 1; omega
    have hin : (r - s) * L + L ≤ clen := by
      have : (r - s) + 1 ≤ e - s := by omega
      have := Nat.mul_le_mul_right L this
      rw [Nat.add_mul, Nat.one_mul] at this
      omega
    simp only [hs, hr, and_self, if_true]
    rw [hoff, readLE_flush_in _ _ _ _ _ _ hin, fillCache_eq,
      readLE_fold ws L s e zeroCache r hs hr (fun w hw => (hv w hw).1), readLE_zero, hfilt]
    cases hl : lastWrite ws r with
    | none => simp
    | some v =>
      have := (hv (r, v) (lastWrite_mem ws r v hl)).2
      simp [this]
  · have hb : r * L + L ≤ s * L := by
      have : r + 1 ≤ s := by omega
      have := Nat.mul_le_mul_right L this
      rw [Nat.add_mul, Nat.one_mul] at this
      exact this
    have : ¬ (s ≤ r ∧ r < e) := by omega
    simp only [this, if_false]
    rw [readLE_flush_before _ _ _ _ _ _ hb]

/-- every window stays inside the table: the cache never holds more than what remains -/
def Fits (L limit : Nat) (win : Nat → Nat) : List Nat → Nat → Prop
  | [], _ => True
  | clen :: rest, cp => cp ≥ limit ∨ (clen ≤ (limit - cp) * L ∧ Fits L limit win rest (cp + win clen))

theorem runBytes_refines (ws : List (Nat × Nat)) (L limit : Nat) (win : Nat → Nat) (hL : 0 < L)
    (hwin : ∀ clen, win clen * L ≤ clen)
    (hv : ∀ w ∈ ws, w.2 < 256 ^ L ∧ w.2 ≠ 0)
    (clens : List Nat) (st : FileState) (ps : PassState Nat)
    (hcp : ps.checkpoint = st.cp) (hag : ∀ r, r < st.cp → absRec st.data L r = ps.table r)
    (hfits : Fits L limit win clens st.cp) :
    (runWindows ws limit (clens.map win) ps).checkpoint = (runBytes ws L limit win clens st).cp ∧
    ∀ r, r < (runBytes ws L limit win clens st).cp →
      absRec (runBytes ws L limit win clens st).data L r = (runWindows ws limit (clens.map win) ps).table r := by
  induction clens generalizing st ps with
  | nil => exact ⟨hcp, hag⟩
  | cons clen rest ih =>
    simp only [List.map_cons, runWindows, runBytes]
    by_cases hdone : st.cp ≥ limit
    · have : ps.checkpoint ≥ limit := by omega
      simp only [hdone, this, if_true]
      exact ⟨hcp, hag⟩
    · have hnd : ¬ ps.checkpoint ≥ limit := by omega
      simp only [hdone, hnd, if_false]
      rcases hfits with h | ⟨hle, hrest⟩
      · exact absurd h hdone
      · -- the window does not cross the end of the table
        have hwl : win clen * L ≤ (limit - st.cp) * L := Nat.le_trans (hwin clen) hle
        have hw : win clen ≤ limit - st.cp := Nat.le_of_mul_le_mul_right hwl hL
        have hmin : min (ps.checkpoint + win clen) limit = st.cp + win clen := by
          rw [hcp]; omega
        rw [hmin, hcp]
        apply ih
        · rfl
        · intro r hr
          simp only at hr ⊢
          have hfit : (st.cp + win clen - st.cp) * L ≤ clen := by
            rw [Nat.add_sub_cancel_left]; exact hwin clen
          rw [window_abs ws L clen st.data st.cp (st.cp + win clen) hfit hv r hr]
          unfold applyWindow
          by_cases hin : st.cp ≤ r ∧ r < st.cp + win clen
          · simp [hin]
          · simp only [hin, if_false]
            exact hag r (by omega)
        · exact hrest

/-! ### pass B: entries as pairs of records -/

theorem lastWrite_recWritesB (ws : List (Nat × (Nat × Nat))) (z : Nat) :
    lastWrite (recWritesB ws) (2 * z) = (lastWrite ws z).map (·.1) ∧
    lastWrite (recWritesB ws) (2 * z + 1) = (lastWrite ws z).map (·.2) := by
  induction ws with
  | nil => simp [recWritesB, lastWrite]
  | cons w ws ih =>
    obtain ⟨p, x, x'⟩ := w
    have hc : recWritesB ((p, x, x') :: ws) = (2 * p, x) :: (2 * p + 1, x') :: recWritesB ws := by
      simp [recWritesB]
    rw [hc]
    simp only [lastWrite]
    rw [ih.1, ih.2]
    cases hl : lastWrite ws z with
    | some v => simp
    | none =>
      by_cases hp : p = z
      · subst hp
        have h1 : ¬ (2 * p + 1 = 2 * p) := by omega
        have h2 : ¬ (2 * p = 2 * p + 1) := by omega
        simp [h1, h2]
      · have h1 : ¬ (2 * p = 2 * z) := by omega
        have h2 : ¬ (2 * p + 1 = 2 * z) := by omega
        have h3 : ¬ (2 * p = 2 * z + 1) := by omega
        have h4 : ¬ (2 * p + 1 = 2 * z + 1) := by omega
        simp [hp, h1, h2, h3, h4]

theorem absPair_of_absRec (f : Bytes) (L z : Nat) :
    absPair f L z =
      match absRec f L (2 * z), absRec f L (2 * z + 1) with
      | none, none => none
      | a, b => some (a.getD 0, b.getD 0) := by
  unfold absPair absRec
  simp only
  by_cases h1 : readLE f (2 * z * L) L = 0 <;> by_cases h2 : readLE f ((2 * z + 1) * L) L = 0 <;> simp [h1, h2]

/-! ### `makeAvailableMemory` -/

theorem memFor_le (required maxMem minMem available n : Nat) (h : memFor required maxMem minMem available = some n) :
    n ≤ required := by
  unfold memFor at h
  have hd := Nat.div_mul_le_self available minMem
  by_cases h1 : required > maxMem <;> simp only [h1, if_true, if_false] at h
  · by_cases h2 : maxMem > available <;> simp only [h2, if_true, if_false] at h
    · by_cases h3 : available < minMem <;> simp only [h3, if_true, if_false] at h
      · cases h
      · simp only [Option.some.injEq] at h; omega
    · simp only [Option.some.injEq] at h; omega
  · by_cases h2 : required > available <;> simp only [h2, if_true, if_false] at h
    · by_cases h3 : available < minMem <;> simp only [h3, if_true, if_false] at h
      · cases h
      · simp only [Option.some.injEq] at h; omega
    · simp only [Option.some.injEq] at h; omega

/-- the cache is never smaller than `min(required, minMem)` -/
theorem memFor_ge (required maxMem minMem available n : Nat) (hmm : minMem ≤ maxMem) (hmin : 0 < minMem)
    (h : memFor required maxMem minMem available = some n) :
    n = required ∨ minMem ≤ n := by
  unfold memFor at h
  have hd : ¬ available < minMem → minMem ≤ available / minMem * minMem := by
    intro hav
    have h1 : 1 ≤ available / minMem := by
      rw [Nat.le_div_iff_mul_le hmin]; omega
    calc minMem = 1 * minMem := by omega
      _ ≤ available / minMem * minMem := Nat.mul_le_mul_right _ h1
  by_cases h1 : required > maxMem <;> simp only [h1, if_true, if_false] at h
  · by_cases h2 : maxMem > available <;> simp only [h2, if_true, if_false] at h
    · by_cases h3 : available < minMem <;> simp only [h3, if_true, if_false] at h
      · cases h
      · simp only [Option.some.injEq] at h; have := hd h3; omega
    · simp only [Option.some.injEq] at h; omega
  · by_cases h2 : required > available <;> simp only [h2, if_true, if_false] at h
    · by_cases h3 : available < minMem <;> simp only [h3, if_true, if_false] at h
      · cases h
      · simp only [Option.some.injEq] at h; have := hd h3; omega
    · simp only [Option.some.injEq] at h; omega

end MassVerif.PlotFile
