/-
C15, "the selection is found again": helper lemmas.  A fill pass over the candidates of an index that was extended
by the spaces a previous request created selects exactly what that request selected and created.
-/
import MassVerif.Proofs.Config

namespace MassVerif.Config

/-- `c` is an interleaving of `a` and `b` (both keep their order) -/
inductive Interleave : List WS → List WS → List WS → Prop
  | nil : Interleave [] [] []
  | left {x : WS} {a b c : List WS} : Interleave a b c → Interleave (x :: a) b (x :: c)
  | right {y : WS} {a b c : List WS} : Interleave a b c → Interleave a (y :: b) (y :: c)

theorem interleave_nil_right (a : List WS) : Interleave a [] a := by
  induction a with
  | nil => exact .nil
  | cons x r ih => exact .left ih

theorem interleave_nil_left (b : List WS) : Interleave [] b b := by
  induction b with
  | nil => exact .nil
  | cons x r ih => exact .right ih

theorem interleave_append {a b c a' b' c' : List WS} (h : Interleave a b c) (h' : Interleave a' b' c') :
    Interleave (a ++ a') (b ++ b') (c ++ c') := by
  induction h with
  | nil => simpa using h'
  | left _ ih => exact .left ih
  | right _ ih => exact .right ih

theorem interleave_filter (p : WS → Bool) {a b c : List WS} (h : Interleave a b c) :
    Interleave (a.filter p) (b.filter p) (c.filter p) := by
  induction h with
  | nil => exact .nil
  | @left x a b c _ ih =>
    by_cases hp : p x = true
    · simp only [List.filter_cons, hp, if_true]; exact .left ih
    · have : p x = false := by simpa using hp
      simp only [List.filter_cons, this, Bool.false_eq_true, if_false]; exact ih
  | @right y a b c _ ih =>
    by_cases hp : p y = true
    · simp only [List.filter_cons, hp, if_true]; exact .right ih
    · have : p y = false := by simpa using hp
      simp only [List.filter_cons, this, Bool.false_eq_true, if_false]; exact ih

theorem interleave_mem_left {a b c : List WS} (h : Interleave a b c) : ∀ z ∈ a, z ∈ c := by
  induction h with
  | nil => intro z hz; cases hz
  | left _ ih =>
    intro z hz
    rcases List.mem_cons.1 hz with rfl | hz
    · simp
    · exact List.mem_cons_of_mem _ (ih z hz)
  | right _ ih => intro z hz; exact List.mem_cons_of_mem _ (ih z hz)

theorem interleave_mem {a b c : List WS} (h : Interleave a b c) : ∀ z, z ∈ c ↔ z ∈ a ∨ z ∈ b := by
  induction h with
  | nil => intro z; simp
  | left _ ih =>
    intro z; simp only [List.mem_cons, ih z]
    constructor
    · rintro (h1 | h1 | h1) <;> simp [h1]
    · rintro ((h1 | h1) | h1) <;> simp [h1]
  | right _ ih =>
    intro z; simp only [List.mem_cons, ih z]
    constructor
    · rintro (h1 | h1 | h1) <;> simp [h1]
    · rintro (h1 | h1 | h1) <;> simp [h1]

/-- **the fill pass over an interleaving**: when a pass over `a` from `cur` ends at `c` and everything of `b` still
fits on top (`e` = what of `b` is already counted), the pass over the interleaving takes what the pass over `a`
took, and all of `b` -/
theorem fill_interleave {a b l : List WS} (h : Interleave a b l) :
    ∀ (cur e t : Int), 0 ≤ e → e + total b ≤ t - (fill a cur t).2 →
    (fill l (cur + e) t).2 = (fill a cur t).2 + e + total b ∧
    (∀ z, z ∈ (fill l (cur + e) t).1 ↔ z ∈ (fill a cur t).1 ∨ z ∈ b) := by
  induction h with
  | nil =>
    intro cur e t he hfit
    simp [fill]
  | @left x a b c hint ih =>
    intro cur e t he hfit
    have hsz := size_nonneg x
    by_cases hx : cur + x.size > t
    · -- `x` did not fit then, it does not fit now
      have h1 : fill (x :: a) cur t = fill a cur t := by rw [fill]; simp [hx]
      have h2 : fill (x :: c) (cur + e) t = fill c (cur + e) t := by
        rw [fill]; have : cur + e + x.size > t := by omega
        simp [this]
      rw [h1] at hfit ⊢
      rw [h2]
      exact ih cur e t he hfit
    · have h1 : fill (x :: a) cur t = (x :: (fill a (cur + x.size) t).1, (fill a (cur + x.size) t).2) := by
        rw [fill]; simp [hx]
      rw [h1] at hfit ⊢
      simp only at hfit
      have hmono := fill_mono a (cur + x.size) t
      have hfits : ¬ cur + e + x.size > t := by
        have := total_nonneg b
        omega
      have h2 : fill (x :: c) (cur + e) t = (x :: (fill c (cur + e + x.size) t).1, (fill c (cur + e + x.size) t).2) := by
        rw [fill]; simp [hfits]
      rw [h2]
      have := ih (cur + x.size) e t he hfit
      have hre : cur + x.size + e = cur + e + x.size := by omega
      rw [hre] at this
      refine ⟨this.1, ?_⟩
      intro z
      simp only [List.mem_cons, this.2 z]
      constructor
      · rintro (h | h | h) <;> simp [h]
      · rintro ((h | h) | h) <;> simp [h]
  | @right y a b c hint ih =>
    intro cur e t he hfit
    have hsz := size_nonneg y
    simp only [total_cons] at hfit
    have hmono := fill_mono a cur t
    have hfits : ¬ cur + e + y.size > t := by
      have := total_nonneg b
      omega
    have h2 : fill (y :: c) (cur + e) t = (y :: (fill c (cur + e + y.size) t).1, (fill c (cur + e + y.size) t).2) := by
      rw [fill]; simp [hfits]
    rw [h2]
    have := ih cur (e + y.size) t (by omega) (by omega)
    have hre : cur + (e + y.size) = cur + e + y.size := by omega
    rw [hre] at this
    simp only [total_cons]
    refine ⟨by rw [this.1]; omega, ?_⟩
    intro z
    simp only [List.mem_cons, this.2 z]
    constructor
    · rintro (h | h | h) <;> simp [h]
    · rintro (h | h | h) <;> simp [h]

/-! ### sorting an extended index -/

def SortedOrd (l : List WS) : Prop := l.Pairwise (fun u v => u.ord ≤ v.ord)

theorem insertOrd_sorted (w : WS) {l : List WS} (h : SortedOrd l) : SortedOrd (insertOrd w l) := by
  induction l with
  | nil => simp [insertOrd, SortedOrd]
  | cons x r ih =>
    unfold insertOrd
    have hx := List.pairwise_cons.1 h
    split
    · rename_i hle
      refine List.pairwise_cons.2 ⟨?_, h⟩
      intro z hz
      rcases List.mem_cons.1 hz with rfl | hz
      · exact hle
      · exact Nat.le_trans hle (hx.1 z hz)
    · rename_i hgt
      refine List.pairwise_cons.2 ⟨?_, ih hx.2⟩
      intro z hz
      rcases mem_insertOrd.1 hz with rfl | hz
      · omega
      · exact hx.1 z hz

theorem sortOrd_sorted (l : List WS) : SortedOrd (sortOrd l) := by
  induction l with
  | nil => simp [sortOrd, SortedOrd]
  | cons x r ih => exact insertOrd_sorted x ih

theorem insertOrd_head {w : WS} {l : List WS} (h : ∀ z ∈ l, w.ord ≤ z.ord) : insertOrd w l = w :: l := by
  cases l with
  | nil => rfl
  | cons x r => unfold insertOrd; rw [if_pos (h x (by simp))]

theorem insertOrd_cons_le {w x : WS} {r : List WS} (h : w.ord ≤ x.ord) : insertOrd w (x :: r) = w :: x :: r := by
  rw [insertOrd, if_pos h]

theorem insertOrd_cons_gt {w x : WS} {r : List WS} (h : ¬ w.ord ≤ x.ord) : insertOrd w (x :: r) = x :: insertOrd w r := by
  rw [insertOrd, if_neg h]

theorem insertOrd_interleave (w : WS) {a b c : List WS} (h : Interleave a b c) (hc : SortedOrd c) :
    Interleave (insertOrd w a) b (insertOrd w c) := by
  induction h with
  | nil => exact .left .nil
  | @left x a b c hint ih =>
    have hx := List.pairwise_cons.1 hc
    by_cases hle : w.ord ≤ x.ord
    · rw [insertOrd_cons_le hle, insertOrd_cons_le hle]
      exact .left (.left hint)
    · rw [insertOrd_cons_gt hle, insertOrd_cons_gt hle]
      exact .left (ih hx.2)
  | @right y a b c hint ih =>
    have hy := List.pairwise_cons.1 hc
    by_cases hle : w.ord ≤ y.ord
    · -- everything of `a` lies in `c`, hence not below `y`, hence not below `w`
      have : insertOrd w a = w :: a :=
        insertOrd_head (fun z hz => Nat.le_trans hle (hy.1 z (interleave_mem_left hint z hz)))
      rw [insertOrd_cons_le hle, this]
      exact .left (.right hint)
    · rw [insertOrd_cons_gt hle]
      exact .right (ih hy.2)

theorem sortOrd_append_interleave (a b : List WS) : Interleave (sortOrd a) (sortOrd b) (sortOrd (a ++ b)) := by
  induction a with
  | nil => exact interleave_nil_left _
  | cons x r ih => exact insertOrd_interleave x ih (sortOrd_sorted _)

theorem candidates_append_interleave (idx new : List WS) :
    Interleave (candidates idx) (candidates new) (candidates (idx ++ new)) := by
  unfold candidates
  induction blDesc with
  | nil => exact .nil
  | cons bl r ih =>
    simp only [List.flatMap_cons]
    exact interleave_append (interleave_filter _ (sortOrd_append_interleave idx new)) ih

/-! ### totals -/

theorem total_insertOrd (w : WS) (l : List WS) : total (insertOrd w l) = w.size + total l := by
  induction l with
  | nil => simp [insertOrd]
  | cons x r ih =>
    unfold insertOrd
    split
    · simp
    · simp [ih]; omega

theorem total_sortOrd (l : List WS) : total (sortOrd l) = total l := by
  induction l with
  | nil => rfl
  | cons x r ih => simp [sortOrd, total_insertOrd, ih]

theorem blDesc_eq : blDesc = [28, 26, 24] := by decide

theorem total_filters (l : List WS) (h : ∀ w ∈ l, w.bl ∈ blDesc) :
    total (l.filter (fun w => w.bl == 28)) + total (l.filter (fun w => w.bl == 26)) + total (l.filter (fun w => w.bl == 24)) = total l := by
  induction l with
  | nil => simp
  | cons x r ih =>
    have hx := h x (by simp)
    have hr := ih (fun w hw => h w (List.mem_cons_of_mem _ hw))
    rw [blDesc_eq] at hx
    simp only [List.mem_cons, List.mem_singleton, List.not_mem_nil, or_false] at hx
    rcases hx with hx | hx | hx <;> simp [List.filter_cons, hx] <;> omega

/-- the visiting order of a list of spaces of usable bit lengths contains each of them once: same total -/
theorem total_candidates (l : List WS) (h : ∀ w ∈ l, w.bl ∈ blDesc) : total (candidates l) = total l := by
  unfold candidates
  rw [blDesc_eq]
  simp only [List.flatMap_cons, List.flatMap_nil, List.append_nil, total_append]
  have := total_filters (sortOrd l) (fun w hw => h w (mem_sortOrd.1 hw))
  rw [total_sortOrd] at this
  omega

end MassVerif.Config
