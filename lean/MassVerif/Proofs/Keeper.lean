/-
Invariants of the keeper transition system (`Model/Keeper.lean`) and their
preservation by every label.  Helper lemmas only; the property theorems are in
`Props/C09.lean`, `Props/C11.lean` (actions) and `Props/C13.lean`.
-/
import MassVerif.Model.Keeper

namespace MassVerif.Keeper

/-- the space whose plot the plotter is waiting for, or has just seen return -/
def pcSid : Pc → Option Nat
  | .plotting s => some s
  | .finished s => some s
  | _ => none

/-- facts about one space that do not depend on where the plotter is -/
structure WSBase (k : K) (s : Nat) (w : WS) : Prop where
  idx : w.idx = if w.inAll then [w.field] else []
  use : w.inUse = true → w.inAll = true
  listed : w.inUse = true ↔ s ∈ k.list

/-- the part of the invariant that does not mention the plotter's position -/
structure Inv0 (k : K) : Prop where
  base : ∀ s w, k.ws s = some w → WSBase k s w
  list : ∀ s, s ∈ k.list → ∃ w, k.ws s = some w
  np : k.panicked = false
  cap : k.chan.length ≤ chanCap
  /-- no request is newer than its space -/
  ep : ∀ r, (r ∈ k.chan ∨ r ∈ k.queue ∨ k.popped = some r) → ∀ w, k.ws r.sid = some w → r.epoch ≤ w.epoch

/-- the plotter's position and the plotting state go together -/
structure PlotInv (k : K) : Prop where
  /-- a space in the plotting state is the one the plotter holds, and the popped item names it -/
  plot : ∀ s w, k.ws s = some w → w.field = .plotting →
    w.inAll = true ∧ pcSid k.pc = some s ∧ ∃ r, k.popped = some r ∧ r.sid = s
  pcw : ∀ s, pcSid k.pc = some s → ∃ w, k.ws s = some w ∧ w.field = .plotting
  fresh : ∀ s w, k.pc = .plotting s → k.ws s = some w → w.done = false
  pop : k.pc = .popped → k.popped.isSome = true

structure Inv (k : K) : Prop where
  i0 : Inv0 k
  pl : PlotInv k

theorem inv_init (n : Nat) : Inv (initK n) := by
  constructor <;> constructor <;> simp [initK, chanCap, pcSid]
  · intro s hs
    constructor <;> simp [hs]

/-! ### `setWS` -/

@[simp] theorem setWS_same (k : K) (sid : Nat) (f : WS → WS) : (setWS k sid f).ws sid = (k.ws sid).map f := by
  simp [setWS]
@[simp] theorem setWS_ne (k : K) {s sid : Nat} (f : WS → WS) (h : s ≠ sid) : (setWS k sid f).ws s = k.ws s := by
  simp [setWS, h]
@[simp] theorem setWS_list (k : K) (sid : Nat) (f : WS → WS) : (setWS k sid f).list = k.list := rfl
@[simp] theorem setWS_chan (k : K) (sid : Nat) (f : WS → WS) : (setWS k sid f).chan = k.chan := rfl
@[simp] theorem setWS_queue (k : K) (sid : Nat) (f : WS → WS) : (setWS k sid f).queue = k.queue := rfl
@[simp] theorem setWS_popped (k : K) (sid : Nat) (f : WS → WS) : (setWS k sid f).popped = k.popped := rfl
@[simp] theorem setWS_pc (k : K) (sid : Nat) (f : WS → WS) : (setWS k sid f).pc = k.pc := rfl
@[simp] theorem setWS_quitting (k : K) (sid : Nat) (f : WS → WS) : (setWS k sid f).quitting = k.quitting := rfl
@[simp] theorem setWS_panicked (k : K) (sid : Nat) (f : WS → WS) : (setWS k sid f).panicked = k.panicked := rfl
@[simp] theorem setWS_deleted (k : K) (sid : Nat) (f : WS → WS) : (setWS k sid f).deleted = k.deleted := rfl

/-- what `setWS` leaves at an arbitrary index -/
theorem setWS_cases (k : K) (sid s : Nat) (f : WS → WS) (w' : WS) (h : (setWS k sid f).ws s = some w') :
    (s = sid ∧ ∃ w, k.ws sid = some w ∧ w' = f w) ∨ (s ≠ sid ∧ k.ws s = some w') := by
  by_cases hs : s = sid
  · subst hs
    simp at h
    obtain ⟨w, hw, rfl⟩ := h
    exact Or.inl ⟨rfl, w, hw, rfl⟩
  · simp [hs] at h; exact Or.inr ⟨hs, h⟩

theorem idx_of_inState {k : K} {s : Nat} {w : WS} {st : St} (h : Inv0 k) (hw : k.ws s = some w) (hi : inState w st = true) :
    w.inAll = true ∧ w.field = st ∧ w.idx = [st] := by
  have hb := (h.base s w hw).idx
  unfold inState at hi
  cases ha : w.inAll <;> simp [ha] at hb <;> simp [hb] at hi
  simp [hi, hb]

/-! ### `Inv0` is preserved by the building blocks -/

/-- a change of one space that keeps what `WSBase` looks at, and does not lower the epoch -/
theorem inv0_setWS {k : K} {sid : Nat} (f : WS → WS) (h : Inv0 k)
    (hf : ∀ w, k.ws sid = some w →
      ((f w).idx = if (f w).inAll then [(f w).field] else []) ∧ ((f w).inUse = true → (f w).inAll = true) ∧
      (f w).inUse = w.inUse ∧ w.epoch ≤ (f w).epoch) :
    Inv0 (setWS k sid f) := by
  obtain ⟨hb, hl, hn, hc, he⟩ := h
  refine ⟨?_, ?_, hn, hc, ?_⟩
  · intro s w' hw'
    rcases setWS_cases k sid s f w' hw' with ⟨rfl, w, hw, rfl⟩ | ⟨_, hw⟩
    · obtain ⟨h1, h2, h3, _⟩ := hf w hw
      exact ⟨h1, h2, by rw [h3]; exact (hb _ w hw).listed⟩
    · exact ⟨(hb s w' hw).idx, (hb s w' hw).use, (hb s w' hw).listed⟩
  · intro s hs
    obtain ⟨w, hw⟩ := hl s hs
    by_cases h2 : s = sid
    · subst h2; exact ⟨f w, by simp [hw]⟩
    · exact ⟨w, by simp [h2, hw]⟩
  · intro r hr w' hw'
    rcases setWS_cases k sid r.sid f w' hw' with ⟨h2, w, hw, rfl⟩ | ⟨_, hw⟩
    · exact Nat.le_trans (he r hr w (h2 ▸ hw)) (hf w hw).2.2.2
    · exact he r hr w' hw

theorem inv0_move {k : K} {sid : Nat} {w : WS} (old new : St) (h : Inv0 k) (hw : k.ws sid = some w)
    (hi : inState w old = true) : Inv0 (setWS k sid (fun w => move w old new)) := by
  obtain ⟨ha, hf, hx⟩ := idx_of_inState h hw hi
  apply inv0_setWS _ h
  intro w0 hw0
  rw [hw] at hw0; cases hw0
  have hu := (h.base sid w hw).use
  simp [move, ha, hx]

theorem inv0_setPoppedWM {k : K} (b : Bool) (h : Inv0 k) : Inv0 (setPoppedWM k b) := by
  obtain ⟨hb, hl, hn, hc, he⟩ := h
  refine ⟨fun s w hw => ⟨(hb s w hw).idx, (hb s w hw).use, (hb s w hw).listed⟩, hl, hn, hc, ?_⟩
  intro r hr w hw
  rcases hr with hr | hr | hr
  · exact he r (Or.inl hr) w hw
  · exact he r (Or.inr (Or.inl hr)) w hw
  · simp only [setPoppedWM] at hr
    cases hp : k.popped with
    | none => simp [hp] at hr
    | some r0 =>
      simp [hp] at hr
      subst hr
      exact he r0 (Or.inr (Or.inr hp)) w hw

theorem inv0_send {k : K} {sid : Nat} {w : WS} (b : Bool) (h : Inv0 k) (hw : k.ws sid = some w) :
    Inv0 (send k ⟨sid, b, w.epoch⟩).1 := by
  unfold send
  split
  · rename_i hlt
    obtain ⟨hb, hl, hn, hc, he⟩ := h
    refine ⟨fun s w hw => ⟨(hb s w hw).idx, (hb s w hw).use, (hb s w hw).listed⟩, hl, hn, ?_, ?_⟩
    · simp; omega
    · intro r hr w' hw'
      simp only [List.mem_append, List.mem_singleton] at hr
      rcases hr with (hr | rfl) | hr | hr
      · exact he r (Or.inl hr) w' hw'
      · simp at hw'; rw [hw] at hw'; cases hw'; exact Nat.le_refl _
      · exact he r (Or.inr (Or.inl hr)) w' hw'
      · exact he r (Or.inr (Or.inr hr)) w' hw'
  · exact h

theorem inv0_purge {k : K} (sid : Nat) (h : Inv0 k) : Inv0 (purge k sid) := by
  obtain ⟨hb, hl, hn, hc, he⟩ := h
  refine ⟨fun s w hw => ⟨(hb s w hw).idx, (hb s w hw).use, (hb s w hw).listed⟩, hl, hn, hc, ?_⟩
  intro r hr w hw
  rcases hr with hr | hr | hr
  · exact he r (Or.inl hr) w hw
  · simp only [purge, List.mem_filter] at hr; exact he r (Or.inr (Or.inl hr.1)) w hw
  · exact he r (Or.inr (Or.inr hr)) w hw

theorem inv0_cancel {k : K} (sid : Nat) (h : Inv0 k) : Inv0 (cancel k sid) := by
  unfold cancel
  apply inv0_purge
  apply inv0_setWS _ h
  intro w hw
  exact ⟨(h.base sid w hw).idx, (h.base sid w hw).use, rfl, Nat.le_succ _⟩

/-- taking a space out of the list (remove, delete) -/
theorem inv0_unlist {k : K} {sid : Nat} (f : WS → WS) (del : List Nat) (h : Inv0 k)
    (hf : ∀ w, k.ws sid = some w →
      ((f w).idx = if (f w).inAll then [(f w).field] else []) ∧ (f w).inUse = false ∧ w.epoch ≤ (f w).epoch) :
    Inv0 { (setWS k sid f) with list := k.list.filter (· != sid), deleted := del } := by
  obtain ⟨hb, hl, hn, hc, he⟩ := h
  refine ⟨?_, ?_, hn, hc, ?_⟩
  · intro s w' hw'
    rcases setWS_cases k sid s f w' hw' with ⟨rfl, w, hw, rfl⟩ | ⟨hne, hw⟩
    · obtain ⟨h1, h2, _⟩ := hf w hw
      exact ⟨h1, by simp [h2], by simp [h2]⟩
    · refine ⟨(hb s w' hw).idx, (hb s w' hw).use, ?_⟩
      simp [List.mem_filter, hne]; exact (hb s w' hw).listed
  · intro s hs
    simp only [List.mem_filter] at hs
    obtain ⟨w, hw⟩ := hl s hs.1
    have h2 : s ≠ sid := by simpa using hs.2
    exact ⟨w, by simp [h2, hw]⟩
  · intro r hr w' hw'
    rcases setWS_cases k sid r.sid f w' hw' with ⟨h2, w, hw, rfl⟩ | ⟨_, hw⟩
    · exact Nat.le_trans (he r hr w (h2 ▸ hw)) (hf w hw).2.2
    · exact he r hr w' hw

/-! ### the frame of a change, as far as the plotter's bookkeeping is concerned -/

structure Frame (k k' : K) : Prop where
  popped : k'.popped.map (·.sid) = k.popped.map (·.sid)
  fwd : ∀ s w', k'.ws s = some w' → ∃ w, k.ws s = some w ∧
    (w'.field = .plotting → w.field = .plotting ∧ w'.inAll = w.inAll ∧ w'.done = w.done)
  bwd : ∀ s w, k.ws s = some w → w.field = .plotting → ∃ w', k'.ws s = some w' ∧ w'.field = .plotting

theorem Frame.refl (k : K) : Frame k k :=
  ⟨rfl, fun _ w' h => ⟨w', h, fun hp => ⟨hp, rfl, rfl⟩⟩, fun _ w h hp => ⟨w, h, hp⟩⟩

theorem Frame.trans {a b c : K} (h1 : Frame a b) (h2 : Frame b c) : Frame a c := by
  refine ⟨h2.popped.trans h1.popped, ?_, ?_⟩
  · intro s w' hw'
    obtain ⟨w, hw, hp⟩ := h2.fwd s w' hw'
    obtain ⟨w0, hw0, hp0⟩ := h1.fwd s w hw
    refine ⟨w0, hw0, fun hf => ?_⟩
    obtain ⟨a1, a2, a3⟩ := hp hf
    obtain ⟨b1, b2, b3⟩ := hp0 a1
    exact ⟨b1, a2.trans b2, a3.trans b3⟩
  · intro s w hw hp
    obtain ⟨w1, hw1, hp1⟩ := h1.bwd s w hw hp
    exact h2.bwd s w1 hw1 hp1

/-- a change that touches neither the spaces nor the popped item -/
theorem Frame.of_eq {k k' : K} (h1 : k'.ws = k.ws) (h2 : k'.popped = k.popped) : Frame k k' := by
  refine ⟨by rw [h2], ?_, ?_⟩
  · intro s w' hw'; rw [h1] at hw'; exact ⟨w', hw', fun hp => ⟨hp, rfl, rfl⟩⟩
  · intro s w hw hp; exact ⟨w, by rw [h1]; exact hw, hp⟩

theorem frame_setWS (k : K) (sid : Nat) (f : WS → WS)
    (hf : ∀ w, k.ws sid = some w → ((f w).field = .plotting ↔ w.field = .plotting) ∧
      (w.field = .plotting → (f w).inAll = w.inAll ∧ (f w).done = w.done)) :
    Frame k (setWS k sid f) := by
  refine ⟨rfl, ?_, ?_⟩
  · intro s w' hw'
    rcases setWS_cases k sid s f w' hw' with ⟨rfl, w, hw, rfl⟩ | ⟨_, hw⟩
    · refine ⟨w, hw, fun hp => ?_⟩
      have := hf w hw
      exact ⟨this.1.mp hp, this.2 (this.1.mp hp)⟩
    · exact ⟨w', hw, fun hp => ⟨hp, rfl, rfl⟩⟩
  · intro s w hw hp
    by_cases hs : s = sid
    · subst hs; exact ⟨f w, by simp [hw], (hf w hw).1.mpr hp⟩
    · exact ⟨w, by simp [hs, hw], hp⟩

theorem frame_setPoppedWM (k : K) (b : Bool) : Frame k (setPoppedWM k b) := by
  refine ⟨?_, fun s w' hw' => ⟨w', hw', fun hp => ⟨hp, rfl, rfl⟩⟩, fun s w hw hp => ⟨w, hw, hp⟩⟩
  show (k.popped.map _).map _ = _
  cases k.popped <;> rfl

theorem plotInv_frame {k k' : K} (h : PlotInv k) (hf : Frame k k')
    (hpc : k'.pc = k.pc ∨ ∃ s, k.pc = .plotting s ∧ k'.pc = .finished s) : PlotInv k' := by
  have hsid : pcSid k'.pc = pcSid k.pc := by
    rcases hpc with h1 | ⟨s, h1, h2⟩
    · rw [h1]
    · rw [h1, h2]; rfl
  have hpop : ∀ r, k.popped = some r → ∃ r', k'.popped = some r' ∧ r'.sid = r.sid := by
    intro r hr
    have := hf.popped
    rw [hr] at this
    cases hp : k'.popped with
    | none => simp [hp] at this
    | some r' => simp [hp] at this; exact ⟨r', rfl, this⟩
  refine ⟨?_, ?_, ?_, ?_⟩
  · intro s w' hw' hp
    obtain ⟨w, hw, hx⟩ := hf.fwd s w' hw'
    obtain ⟨x1, x2, x3⟩ := hx hp
    obtain ⟨y1, y2, r, y3, y4⟩ := h.plot s w hw x1
    obtain ⟨r', z1, z2⟩ := hpop r y3
    exact ⟨x2.trans y1, hsid.trans y2, r', z1, z2.trans y4⟩
  · intro s hs
    obtain ⟨w, hw, hp⟩ := h.pcw s (hsid ▸ hs)
    obtain ⟨w', hw', hp'⟩ := hf.bwd s w hw hp
    exact ⟨w', hw', hp'⟩
  · intro s w' hpc' hw'
    have hk : k.pc = .plotting s := by
      rcases hpc with h1 | ⟨s0, _, h2⟩
      · rw [← h1]; exact hpc'
      · rw [h2] at hpc'; cases hpc'
    obtain ⟨w0, hw0, hp0⟩ := h.pcw s (by rw [hk]; rfl)
    obtain ⟨w'', hw'', hp''⟩ := hf.bwd s w0 hw0 hp0
    rw [hw'] at hw''; cases hw''
    obtain ⟨w, hw, hx⟩ := hf.fwd s w' hw'
    obtain ⟨_, _, x3⟩ := hx hp''
    rw [x3]; exact h.fresh s w hk hw
  · intro hp
    have hk : k.pc = .popped := by
      rcases hpc with h1 | ⟨s0, _, h2⟩
      · rw [← h1]; exact hp
      · rw [h2] at hp; cases hp
    have := h.pop hk
    cases hr : k.popped with
    | none => simp [hr] at this
    | some r => obtain ⟨r', z1, _⟩ := hpop r hr; simp [z1]

/-! ### API actions -/

theorem cancel_ws_sid {k : K} {sid : Nat} {w : WS} (h : k.ws sid = some w) :
    (cancel k sid).ws sid = some { w with epoch := w.epoch + 1 } := by
  simp [cancel, purge, setWS, h]
@[simp] theorem cancel_popped (k : K) (sid : Nat) : (cancel k sid).popped = k.popped := rfl
@[simp] theorem cancel_list (k : K) (sid : Nat) : (cancel k sid).list = k.list := rfl
@[simp] theorem cancel_pc (k : K) (sid : Nat) : (cancel k sid).pc = k.pc := rfl
@[simp] theorem cancel_quitting (k : K) (sid : Nat) : (cancel k sid).quitting = k.quitting := rfl
@[simp] theorem cancel_panicked (k : K) (sid : Nat) : (cancel k sid).panicked = k.panicked := rfl

theorem frame_cancel (k : K) (sid : Nat) : Frame k (cancel k sid) := by
  have h1 : Frame k (setWS k sid (fun w => { w with epoch := w.epoch + 1 })) :=
    frame_setWS k sid _ (fun w _ => ⟨Iff.rfl, fun _ => ⟨rfl, rfl⟩⟩)
  exact h1.trans (Frame.of_eq rfl rfl)

/-- what an API action leaves of the invariant's ingredients -/
structure ActOK (k k' : K) : Prop where
  i0 : Inv0 k'
  fr : Frame k k'
  pc : k'.pc = k.pc
  qt : k'.quitting = k.quitting

theorem ActOK.refl {k : K} (h : Inv k) : ActOK k k := ⟨h.i0, Frame.refl k, rfl, rfl⟩

theorem popped_of_plotting {k : K} {sid : Nat} {w : WS} (h : Inv k) (hw : k.ws sid = some w)
    (hi : inState w .plotting = true) : ∃ r, k.popped = some r ∧ r.sid = sid := by
  obtain ⟨_, hf, _⟩ := idx_of_inState h.i0 hw hi
  exact (h.pl.plot sid w hw hf).2.2

theorem send_ok {k : K} {sid : Nat} {w : WS} (b : Bool) (h : Inv k) (hw : k.ws sid = some w) :
    ActOK k (send k ⟨sid, b, w.epoch⟩).1 := by
  refine ⟨inv0_send b h.i0 hw, ?_, ?_, ?_⟩ <;>
    (unfold send; split <;> first | rfl | exact Frame.of_eq rfl rfl | exact Frame.refl _)

theorem move_ok {k : K} {sid : Nat} {w : WS} (old new : St) (h : Inv0 k) (hw : k.ws sid = some w)
    (hi : inState w old = true) (ho : old ≠ .plotting) (hn : new ≠ .plotting) :
    Inv0 (setWS k sid (fun w => move w old new)) ∧ Frame k (setWS k sid (fun w => move w old new)) := by
  refine ⟨inv0_move old new h hw hi, frame_setWS k sid _ ?_⟩
  intro w0 hw0
  rw [hw] at hw0; cases hw0
  obtain ⟨_, hf, _⟩ := idx_of_inState h hw hi
  simp [move, hf, ho, hn]

theorem act_ok {k : K} (a : Act) (sid : Nat) (h : Inv k) : ActOK k (act k a sid).1 := by
  cases hfind : k.ws sid with
  | none => simp only [act, find, hfind]; exact ActOK.refl h
  | some w =>
    simp only [act, find, hfind]
    split
    · exact ActOK.refl h
    · have hc := cancel_ws_sid (sid := sid) hfind
      have hic : Inv0 (cancel k sid) := inv0_cancel sid h.i0
      cases a with
      | plot =>
        simp only
        split
        · exact send_ok false h hfind
        · split
          · rename_i hi
            obtain ⟨r, hr, hrs⟩ := popped_of_plotting h hfind hi
            simp only [hr]
            split
            · exact ActOK.refl h
            · exact ⟨inv0_setPoppedWM _ h.i0, frame_setPoppedWM _ _, rfl, rfl⟩
          · exact ActOK.refl h
      | mine =>
        simp only
        split
        · exact send_ok true h hfind
        · split
          · rename_i hi
            obtain ⟨r, hr, hrs⟩ := popped_of_plotting h hfind hi
            simp only [hr]
            split
            · exact ActOK.refl h
            · exact ⟨inv0_setPoppedWM _ h.i0, frame_setPoppedWM _ _, rfl, rfl⟩
          · split
            · rename_i hi
              obtain ⟨a1, a2⟩ := move_ok .ready .mining h.i0 hfind hi (by decide) (by decide)
              exact ⟨a1, a2, rfl, rfl⟩
            · exact ActOK.refl h
      | stop =>
        simp only
        split
        · rename_i hi
          obtain ⟨r, hr, hrs⟩ := popped_of_plotting h hfind hi
          simp only [cancel_popped, hr]
          split
          · exact ⟨hic, frame_cancel k sid, rfl, rfl⟩
          · exact ⟨inv0_setPoppedWM _ hic, (frame_cancel k sid).trans (frame_setPoppedWM _ _), rfl, rfl⟩
        · split
          · rename_i hi
            have hi' : inState { w with epoch := w.epoch + 1 } .mining = true := hi
            obtain ⟨a1, a2⟩ := move_ok .mining .ready hic hc hi' (by decide) (by decide)
            exact ⟨a1, (frame_cancel k sid).trans a2, rfl, rfl⟩
          · exact ⟨hic, frame_cancel k sid, rfl, rfl⟩
      | remove =>
        simp only
        split
        · refine ⟨inv0_unlist (k := cancel k sid) (fun w => { w with inUse := false }) (cancel k sid).deleted hic ?_, ?_, rfl, rfl⟩
          · intro w1 hw1
            exact ⟨(hic.base sid w1 hw1).idx, rfl, Nat.le_refl _⟩
          · refine (frame_cancel k sid).trans (Frame.trans (frame_setWS _ sid _ ?_) (Frame.of_eq rfl rfl))
            intro w1 _; exact ⟨Iff.rfl, fun _ => ⟨rfl, rfl⟩⟩
        · exact ⟨hic, frame_cancel k sid, rfl, rfl⟩
      | delete =>
        simp only
        split
        · rename_i hi
          have hf : w.field ≠ .plotting := by
            intro hp
            rcases Bool.or_eq_true _ _ |>.mp hi with h1 | h1
            · have := (idx_of_inState h.i0 hfind h1).2.1; rw [hp] at this; cases this
            · have := (idx_of_inState h.i0 hfind h1).2.1; rw [hp] at this; cases this
          refine ⟨inv0_unlist (k := cancel k sid) _ _ hic ?_, ?_, rfl, rfl⟩
          · intro w1 hw1
            have hb := (hic.base sid w1 hw1).idx
            refine ⟨?_, rfl, Nat.le_refl _⟩
            simp only [Bool.false_eq_true, if_false]
            rw [hb]; split <;> simp
          · refine (frame_cancel k sid).trans (Frame.trans (frame_setWS _ sid _ ?_) (Frame.of_eq rfl rfl))
            intro w1 hw1
            rw [hc] at hw1; cases hw1
            exact ⟨Iff.rfl, fun hp => absurd hp hf⟩
        · exact ⟨hic, frame_cancel k sid, rfl, rfl⟩
/-! ### every label preserves the invariant -/

/-- `Inv0` looks only at the spaces, the list, the requests and the panic flag -/
theorem inv0_congr {k k' : K} (h : Inv0 k) (h1 : k'.ws = k.ws) (h2 : k'.list = k.list) (h3 : k'.panicked = k.panicked)
    (h4 : k'.chan.length ≤ chanCap)
    (h5 : ∀ r, (r ∈ k'.chan ∨ r ∈ k'.queue ∨ k'.popped = some r) → (r ∈ k.chan ∨ r ∈ k.queue ∨ k.popped = some r)) :
    Inv0 k' := by
  obtain ⟨hb, hl, hn, hc, he⟩ := h
  refine ⟨?_, ?_, h3.trans hn, h4, ?_⟩
  · intro s w hw; rw [h1] at hw
    exact ⟨(hb s w hw).idx, (hb s w hw).use, by rw [h2]; exact (hb s w hw).listed⟩
  · intro s hs; rw [h2] at hs; rw [h1]; exact hl s hs
  · intro r hr w hw; rw [h1] at hw; exact he r (h5 r hr) w hw

def NoPlot (k : K) : Prop := ∀ s w, k.ws s = some w → w.field ≠ .plotting

theorem noPlot_of_pcSid {k : K} (h : PlotInv k) (hp : pcSid k.pc = none) : NoPlot k := by
  intro s w hw hf
  have := (h.plot s w hw hf).2.1
  rw [hp] at this; cases this

theorem plotInv_of_noPlot {k : K} (h : NoPlot k) (hp : pcSid k.pc = none)
    (hpop : k.pc = .popped → k.popped.isSome = true) : PlotInv k := by
  refine ⟨fun s w hw hf => absurd hf (h s w hw), ?_, ?_, hpop⟩
  · intro s hs; rw [hp] at hs; cases hs
  · intro s w hpc; rw [hpc] at hp; cases hp

theorem inv_loopTop {k : K} (h : Inv0 k) (hn : NoPlot k) : Inv (loopTop k) := by
  unfold loopTop
  split
  · exact ⟨inv0_congr h rfl rfl rfl h.cap (fun r hr => hr), plotInv_of_noPlot hn rfl (by intro h; cases h)⟩
  · split
    · refine ⟨inv0_congr h rfl rfl rfl h.cap ?_, plotInv_of_noPlot hn rfl (by intro h; cases h)⟩
      intro r hr
      rcases hr with hr | hr | hr
      · exact Or.inl hr
      · simp [exitNow] at hr
      · simp [exitNow] at hr
    · exact ⟨inv0_congr h rfl rfl rfl h.cap (fun r hr => hr), plotInv_of_noPlot hn rfl (by intro h; cases h)⟩

theorem mem_enqueue {q : List Req} {r x : Req} (h : x ∈ enqueue q r) : x ∈ q ∨ x = r := by
  induction q with
  | nil => simp [enqueue] at h; exact Or.inr h
  | cons y ys ih =>
    simp only [enqueue] at h
    split at h
    · simp only [List.mem_cons] at h ⊢
      rcases h with h | h | h
      · exact Or.inr h
      · exact Or.inl (Or.inl h)
      · exact Or.inl (Or.inr h)
    · simp only [List.mem_cons] at h ⊢
      rcases h with h | h
      · exact Or.inl (Or.inl h)
      · rcases ih h with h | h
        · exact Or.inl (Or.inr h)
        · exact Or.inr h

theorem mem_foldl_enqueue {c q : List Req} {x : Req} (h : x ∈ c.foldl enqueue q) : x ∈ q ∨ x ∈ c := by
  induction c generalizing q with
  | nil => exact Or.inl h
  | cons y ys ih =>
    simp only [List.foldl_cons] at h
    rcases ih h with h | h
    · rcases mem_enqueue h with h | h
      · exact Or.inl h
      · exact Or.inr (by simp [h])
    · exact Or.inr (by simp [h])

theorem micro_inv {k k' : K} {l : Label} (h : Inv k) (hm : micro k l = some k') : Inv k' := by
  unfold micro at hm
  split at hm
  · cases hm
  cases l with
  | api a sid =>
    simp only [Option.some.injEq] at hm
    have ha := act_ok a sid h
    split at hm
    · rename_i hc
      simp only [Bool.and_eq_true, beq_iff_eq] at hc
      subst hm
      refine ⟨inv0_congr ha.i0 rfl rfl rfl ha.i0.cap (fun r hr => hr), ?_⟩
      exact plotInv_frame h.pl (ha.fr.trans (Frame.of_eq rfl rfl)) (Or.inr ⟨sid, hc.2, rfl⟩)
    · subst hm
      exact ⟨ha.i0, plotInv_frame h.pl ha.fr (Or.inl ha.pc)⟩
  | recv =>
    dsimp only at hm
    split at hm
    · rename_i hc
      simp only [Bool.and_eq_true, beq_iff_eq] at hc
      cases hm
      apply inv_loopTop
      · refine inv0_congr h.i0 rfl rfl rfl (by simp) ?_
        intro r hr
        rcases hr with hr | hr | hr
        · simp at hr
        · rcases mem_foldl_enqueue hr with hr | hr
          · exact Or.inr (Or.inl hr)
          · exact Or.inl hr
        · exact Or.inr (Or.inr hr)
      · have hnp : NoPlot k := noPlot_of_pcSid h.pl (by rw [hc.1.1]; rfl)
        exact hnp
    · cases hm
  | pop wm ep =>
    dsimp only at hm
    split at hm
    · rename_i hc
      simp only [beq_iff_eq] at hc
      have hnp : NoPlot k := noPlot_of_pcSid h.pl (by rw [hc]; rfl)
      split at hm
      · cases hm; exact inv_loopTop h.i0 hnp
      · rename_i top rest hq
        split at hm
        · rename_i hmem
          cases hm
          have hmem' : (⟨top.sid, wm, ep⟩ : Req) ∈ k.queue := by simpa using hmem
          refine ⟨inv0_congr h.i0 rfl rfl rfl h.i0.cap ?_, plotInv_of_noPlot hnp rfl (fun _ => rfl)⟩
          intro r hr
          rcases hr with hr | hr | hr
          · exact Or.inl hr
          · exact Or.inr (Or.inl (List.mem_of_mem_erase hr))
          · simp only [Option.some.injEq] at hr; subst hr; exact Or.inr (Or.inl hmem')
        · cases hm
    · cases hm
  | step1 =>
    dsimp only at hm
    split at hm
    · rename_i hc
      simp only [beq_iff_eq] at hc
      have hnp : NoPlot k := noPlot_of_pcSid h.pl (by rw [hc]; rfl)
      have hsome := h.pl.pop hc
      cases hp : k.popped with
      | none => simp [hp] at hsome
      | some r =>
        simp only [hp, find] at hm
        cases hw : k.ws r.sid with
        | none => simp only [hw] at hm; cases hm; exact inv_loopTop h.i0 hnp
        | some w =>
          simp only [hw] at hm
          split at hm
          · cases hm; exact inv_loopTop h.i0 hnp
          · split at hm
            · rename_i hi
              cases hm
              obtain ⟨ha, hf, hx⟩ := idx_of_inState h.i0 hw hi
              have h0 := inv0_move .registered .plotting h.i0 hw hi
              refine ⟨inv0_congr h0 rfl rfl rfl h0.cap (fun r hr => hr), ?_, ?_, ?_, ?_⟩
              · intro s w' hw' hf'
                rcases setWS_cases k r.sid s _ w' hw' with ⟨rfl, w0, hw0, rfl⟩ | ⟨_, hw0⟩
                · rw [hw] at hw0; cases hw0
                  refine ⟨by simp [move, ha], ?_, r, hp, rfl⟩
                  simp only; split <;> rfl
                · exact absurd hf' (hnp s w' hw0)
              · intro s hs
                have : s = r.sid := by
                  simp only at hs; split at hs <;> (simp [pcSid] at hs; exact hs.symm)
                subst this
                exact ⟨move w .registered .plotting, by simp [hw], rfl⟩
              · intro s w' hpc hw'
                simp only at hpc
                split at hpc
                · cases hpc
                · rename_i hd
                  cases hpc
                  simp [hw] at hw'; subst hw'
                  simpa [move] using hd
              · intro hpc; simp only at hpc; split at hpc <;> cases hpc
            · split at hm
              · rename_i hi
                simp only [Bool.and_eq_true] at hi
                cases hm
                obtain ⟨a1, _⟩ := move_ok .ready .mining h.i0 hw hi.1 (by decide) (by decide)
                apply inv_loopTop a1
                intro s w' hw'
                rcases setWS_cases k r.sid s _ w' hw' with ⟨rfl, w0, hw0, rfl⟩ | ⟨_, hw0⟩
                · simp [move]
                · exact hnp s w' hw0
              · cases hm; exact inv_loopTop h.i0 hnp
    · cases hm
  | plotEnds d =>
    dsimp only at hm
    split at hm
    · rename_i sid hc
      cases hm
      obtain ⟨w, hw, hf⟩ := h.pl.pcw sid (by rw [hc]; rfl)
      cases d with
      | false =>
        simp only [Bool.false_eq_true, if_false]
        exact ⟨inv0_congr h.i0 rfl rfl rfl h.i0.cap (fun r hr => hr),
          plotInv_frame h.pl (Frame.of_eq rfl rfl) (Or.inr ⟨sid, hc, rfl⟩)⟩
      | true =>
        simp only [if_true]
        have h0 : Inv0 (setWS k sid (fun w => { w with done := true })) :=
          inv0_setWS _ h.i0 (fun w hw => ⟨(h.i0.base sid w hw).idx, (h.i0.base sid w hw).use, rfl, Nat.le_refl _⟩)
        refine ⟨inv0_congr h0 rfl rfl rfl h0.cap (fun r hr => hr), ?_⟩
        -- not a frame (done changes): directly
        refine ⟨?_, ?_, ?_, ?_⟩
        · intro s w' hw' hf'
          rcases setWS_cases k sid s _ w' hw' with ⟨rfl, w0, hw0, rfl⟩ | ⟨_, hw0⟩
          · obtain ⟨x1, x2, x3⟩ := h.pl.plot _ w0 hw0 hf'
            exact ⟨x1, rfl, x3⟩
          · obtain ⟨x1, x2, x3⟩ := h.pl.plot s w' hw0 hf'
            rw [hc] at x2
            exact ⟨x1, x2, x3⟩
        · intro s hs
          have : s = sid := by dsimp only [pcSid] at hs; cases hs; rfl
          subst this
          exact ⟨{ w with done := true }, by simp [hw], hf⟩
        · intro s w' hpc; cases hpc
        · intro hpc; cases hpc
    · cases hm
  | step3 =>
    dsimp only at hm
    split at hm
    · rename_i sid hc
      cases hm
      obtain ⟨w, hw, hf⟩ := h.pl.pcw sid (by rw [hc]; rfl)
      obtain ⟨ha, _, _⟩ := h.pl.plot sid w hw hf
      have hi : inState w .plotting = true := by
        have := (h.i0.base sid w hw).idx
        simp [ha, hf] at this
        simp [inState, this]
      simp only [step3, find, hw]
      apply inv_loopTop (inv0_move .plotting _ h.i0 hw hi)
      intro s w' hw'
      rcases setWS_cases k sid s _ w' hw' with ⟨rfl, w0, hw0, rfl⟩ | ⟨hne, hw0⟩
      · simp only [move]
        split
        · decide
        · split <;> decide
      · intro hf'
        have := (h.pl.plot s w' hw0 hf').2.1
        rw [hc] at this
        simp [pcSid] at this
        exact hne this.symm
    · cases hm
  | start =>
    dsimp only at hm
    split at hm
    · rename_i hc
      simp only [beq_iff_eq] at hc
      cases hm
      have hnp : NoPlot k := noPlot_of_pcSid h.pl (by rw [hc]; rfl)
      exact inv_loopTop (inv0_congr h.i0 rfl rfl rfl h.i0.cap (fun r hr => hr)) hnp
    · cases hm
  | quit =>
    dsimp only at hm
    split at hm
    · split at hm
      · rename_i sid hc
        cases hm
        exact ⟨inv0_congr h.i0 rfl rfl rfl h.i0.cap (fun r hr => hr),
          plotInv_frame h.pl (Frame.of_eq rfl rfl) (Or.inr ⟨sid, hc, rfl⟩)⟩
      · cases hm
        exact ⟨inv0_congr h.i0 rfl rfl rfl h.i0.cap (fun r hr => hr),
          plotInv_frame h.pl (Frame.of_eq rfl rfl) (Or.inl rfl)⟩
    · cases hm
  | exit d =>
    dsimp only at hm
    split at hm
    · rename_i hc
      simp only [Bool.and_eq_true, beq_iff_eq] at hc
      cases hm
      have hnp : NoPlot k := noPlot_of_pcSid h.pl (by rw [hc.1.1]; rfl)
      refine ⟨inv0_congr h.i0 rfl rfl rfl ?_ ?_, plotInv_of_noPlot hnp rfl (by intro h; cases h)⟩
      · simp only [exitNow]; split
        · simp
        · exact h.i0.cap
      · intro r hr
        simp only [exitNow] at hr
        rcases hr with hr | hr | hr
        · split at hr
          · simp at hr
          · exact Or.inl hr
        · simp at hr
        · simp at hr
    · cases hm

theorem run_inv {k k' : K} (ls : List Label) (h : Inv k) (hr : run k ls = some k') : Inv k' := by
  induction ls generalizing k with
  | nil => simp [run] at hr; subst hr; exact h
  | cons l ls ih =>
    simp only [run] at hr
    cases hm : micro k l with
    | none => simp [hm] at hr
    | some k1 => simp [hm] at hr; exact ih (micro_inv h hm) hr

/-- every state reachable from the initial configuration with `n` registered spaces -/
theorem reachable_inv {n : Nat} {k : K} (ls : List Label) (hr : run (initK n) ls = some k) : Inv k :=
  run_inv ls (inv_init n) hr

/-! ### what a label may change -/

/-- what one API action may change (everything later theorems need to know about `act`) -/
structure ActEff (k : K) (a : Act) (sid : Nat) (k1 : K) : Prop where
  other : ∀ s, s ≠ sid → k1.ws s = k.ws s
  none : k.ws sid = none → k1.ws sid = none
  at_sid : ∀ w, k.ws sid = some w → ∃ w1, k1.ws sid = some w1 ∧ w.epoch ≤ w1.epoch ∧
    (w1.field = w.field ∨ (a = .mine ∧ w.field = .ready ∧ w1.field = .mining) ∨
      (a = .stop ∧ w.field = .mining ∧ w1.field = .ready)) ∧
    (w1.filesExist = w.filesExist ∨ a = .delete)
  chan : ∀ r, r ∈ k1.chan → r ∈ k.chan ∨
    (r.sid = sid ∧ (a = .plot ∨ a = .mine) ∧ ∃ w, k.ws sid = some w ∧ r.epoch = w.epoch)
  queue : ∀ r, r ∈ k1.queue → r ∈ k.queue
  popped : k1.popped = k.popped ∨ ∃ b r, k.popped = some r ∧ r.sid = sid ∧
    k1.popped = some { r with wouldMining := b } ∧ (b = true → a = .mine)
  deleted : k1.deleted = k.deleted ∨ a = .delete

theorem ActEff.refl (k : K) (a : Act) (sid : Nat) : ActEff k a sid k :=
  ⟨fun _ _ => rfl, fun h => h, fun w hw => ⟨w, hw, Nat.le_refl _, Or.inl rfl, Or.inl rfl⟩,
   fun _ hr => Or.inl hr, fun _ hr => hr, Or.inl rfl, Or.inl rfl⟩

/-- a change at `sid` by `f` plus changes of the bookkeeping lists -/
theorem ActEff.of_setWS {k k1 : K} {a : Act} {sid : Nat} (f : WS → WS) (hws : k1.ws = (setWS k sid f).ws)
    (hf : ∀ w, k.ws sid = some w → w.epoch ≤ (f w).epoch ∧
      ((f w).field = w.field ∨ (a = .mine ∧ w.field = .ready ∧ (f w).field = .mining) ∨
        (a = .stop ∧ w.field = .mining ∧ (f w).field = .ready)) ∧
      ((f w).filesExist = w.filesExist ∨ a = .delete))
    (hchan : ∀ r, r ∈ k1.chan → r ∈ k.chan ∨
      (r.sid = sid ∧ (a = .plot ∨ a = .mine) ∧ ∃ w, k.ws sid = some w ∧ r.epoch = w.epoch))
    (hqueue : ∀ r, r ∈ k1.queue → r ∈ k.queue)
    (hpopped : k1.popped = k.popped ∨ ∃ b r, k.popped = some r ∧ r.sid = sid ∧
      k1.popped = some { r with wouldMining := b } ∧ (b = true → a = .mine))
    (hdel : k1.deleted = k.deleted ∨ a = .delete) : ActEff k a sid k1 := by
  refine ⟨?_, ?_, ?_, hchan, hqueue, hpopped, hdel⟩
  · intro s hs; rw [hws]; simp [hs]
  · intro h; rw [hws]; simp [h]
  · intro w hw
    exact ⟨f w, by rw [hws]; simp [hw], (hf w hw).1, (hf w hw).2.1, (hf w hw).2.2⟩

theorem setWS_id_ws (k : K) (sid : Nat) : k.ws = (setWS k sid id).ws := by
  funext s; simp [setWS]

theorem field_of_inState {k : K} {s : Nat} {w : WS} {st : St} (h : Inv0 k) (hw : k.ws s = some w)
    (hi : inState w st = true) : w.field = st := (idx_of_inState h hw hi).2.1

theorem act_eff {k : K} (a : Act) (sid : Nat) (h : Inv k) : ActEff k a sid (act k a sid).1 := by
  cases hfind : k.ws sid with
  | none => simp only [act, find, hfind]; exact ActEff.refl k a sid
  | some w =>
    simp only [act, find, hfind]
    split
    · exact ActEff.refl k a sid
    · have hbump : ∀ w0, k.ws sid = some w0 → w0.epoch ≤ w0.epoch + 1 := fun _ _ => Nat.le_succ _
      cases a with
      | plot =>
        simp only
        split
        · unfold send; split
          · refine ActEff.of_setWS id (setWS_id_ws k sid) (fun w _ => ⟨Nat.le_refl _, Or.inl rfl, Or.inl rfl⟩) ?_ (fun _ hr => hr) (Or.inl rfl) (Or.inl rfl)
            intro r hr
            simp only [List.mem_append, List.mem_singleton] at hr
            rcases hr with hr | rfl
            · exact Or.inl hr
            · exact Or.inr ⟨rfl, Or.inl rfl, w, hfind, rfl⟩
          · exact ActEff.refl k _ sid
        · split
          · rename_i hi
            obtain ⟨r, hr, hrs⟩ := popped_of_plotting h hfind hi
            simp only [hr]
            split
            · exact ActEff.refl k _ sid
            · refine ActEff.of_setWS id (setWS_id_ws k sid) (fun w _ => ⟨Nat.le_refl _, Or.inl rfl, Or.inl rfl⟩) (fun _ hr => Or.inl hr) (fun _ hr => hr) ?_ (Or.inl rfl)
              exact Or.inr ⟨false, r, hr, hrs, by simp [setPoppedWM, hr], by intro h; cases h⟩
          · exact ActEff.refl k _ sid
      | mine =>
        simp only
        split
        · unfold send; split
          · refine ActEff.of_setWS id (setWS_id_ws k sid) (fun w _ => ⟨Nat.le_refl _, Or.inl rfl, Or.inl rfl⟩) ?_ (fun _ hr => hr) (Or.inl rfl) (Or.inl rfl)
            intro r hr
            simp only [List.mem_append, List.mem_singleton] at hr
            rcases hr with hr | rfl
            · exact Or.inl hr
            · exact Or.inr ⟨rfl, Or.inr rfl, w, hfind, rfl⟩
          · exact ActEff.refl k _ sid
        · split
          · rename_i hi
            obtain ⟨r, hr, hrs⟩ := popped_of_plotting h hfind hi
            simp only [hr]
            split
            · exact ActEff.refl k _ sid
            · refine ActEff.of_setWS id (setWS_id_ws k sid) (fun w _ => ⟨Nat.le_refl _, Or.inl rfl, Or.inl rfl⟩) (fun _ hr => Or.inl hr) (fun _ hr => hr) ?_ (Or.inl rfl)
              exact Or.inr ⟨true, r, hr, hrs, by simp [setPoppedWM, hr], fun _ => rfl⟩
          · split
            · rename_i hi
              refine ActEff.of_setWS _ rfl ?_ (fun _ hr => Or.inl hr) (fun _ hr => hr) (Or.inl rfl) (Or.inl rfl)
              intro w0 hw0; rw [hfind] at hw0; cases hw0
              exact ⟨Nat.le_refl _, Or.inr (Or.inl ⟨rfl, field_of_inState h.i0 hfind hi, rfl⟩), Or.inl rfl⟩
            · exact ActEff.refl k _ sid
      | stop =>
        simp only
        have hcw : (cancel k sid).ws = (setWS k sid (fun w => { w with epoch := w.epoch + 1 })).ws := rfl
        have hcq : ∀ r, r ∈ (cancel k sid).queue → r ∈ k.queue := by
          intro r hr; simp only [cancel, purge, List.mem_filter] at hr; exact hr.1
        split
        · rename_i hi
          obtain ⟨r, hr, hrs⟩ := popped_of_plotting h hfind hi
          simp only [cancel_popped, hr]
          split
          · exact ActEff.of_setWS _ hcw (fun w _ => ⟨Nat.le_succ _, Or.inl rfl, Or.inl rfl⟩) (fun _ hr => Or.inl hr) hcq (Or.inl rfl) (Or.inl rfl)
          · refine ActEff.of_setWS _ hcw (fun w _ => ⟨Nat.le_succ _, Or.inl rfl, Or.inl rfl⟩) (fun _ hr => Or.inl hr) hcq ?_ (Or.inl rfl)
            exact Or.inr ⟨false, r, hr, hrs, by simp [setPoppedWM, hr], by intro h; cases h⟩
        · split
          · rename_i hi
            refine ActEff.of_setWS (fun w => move { w with epoch := w.epoch + 1 } .mining .ready) ?_ ?_ (fun _ hr => Or.inl hr) hcq (Or.inl rfl) (Or.inl rfl)
            · funext s; simp only [setWS, cancel, purge]; split <;> simp [Option.map_map, Function.comp_def]
            · intro w0 hw0; rw [hfind] at hw0; cases hw0
              exact ⟨Nat.le_succ _, Or.inr (Or.inr ⟨rfl, field_of_inState h.i0 hfind hi, rfl⟩), Or.inl rfl⟩
          · exact ActEff.of_setWS _ hcw (fun w _ => ⟨Nat.le_succ _, Or.inl rfl, Or.inl rfl⟩) (fun _ hr => Or.inl hr) hcq (Or.inl rfl) (Or.inl rfl)
      | remove =>
        simp only
        have hcw : (cancel k sid).ws = (setWS k sid (fun w => { w with epoch := w.epoch + 1 })).ws := rfl
        have hcq : ∀ r, r ∈ (cancel k sid).queue → r ∈ k.queue := by
          intro r hr; simp only [cancel, purge, List.mem_filter] at hr; exact hr.1
        split
        · refine ActEff.of_setWS (fun w => { w with epoch := w.epoch + 1, inUse := false }) ?_ (fun w _ => ⟨Nat.le_succ _, Or.inl rfl, Or.inl rfl⟩) (fun _ hr => Or.inl hr) hcq (Or.inl rfl) (Or.inl rfl)
          funext s; simp only [setWS, cancel, purge]; split <;> simp [Option.map_map, Function.comp_def]
        · exact ActEff.of_setWS _ hcw (fun w _ => ⟨Nat.le_succ _, Or.inl rfl, Or.inl rfl⟩) (fun _ hr => Or.inl hr) hcq (Or.inl rfl) (Or.inl rfl)
      | delete =>
        simp only
        have hcw : (cancel k sid).ws = (setWS k sid (fun w => { w with epoch := w.epoch + 1 })).ws := rfl
        have hcq : ∀ r, r ∈ (cancel k sid).queue → r ∈ k.queue := by
          intro r hr; simp only [cancel, purge, List.mem_filter] at hr; exact hr.1
        split
        · refine ActEff.of_setWS (fun w => { w with epoch := w.epoch + 1, idx := w.idx.filter (· != w.field), inAll := false, inUse := false, filesExist := false, done := false }) ?_ (fun w _ => ⟨Nat.le_succ _, Or.inl rfl, Or.inr rfl⟩) (fun _ hr => Or.inl hr) hcq (Or.inl rfl) (Or.inr rfl)
          funext s; simp only [setWS, cancel, purge]; split <;> simp [Option.map_map, Function.comp_def]
        · exact ActEff.of_setWS _ hcw (fun w _ => ⟨Nat.le_succ _, Or.inl rfl, Or.inl rfl⟩) (fun _ hr => Or.inl hr) hcq (Or.inl rfl) (Or.inl rfl)

/-- the documented transition table (poc/engine/engine.go:171-212), per label and space:
    the state of space `s` either stays, or moves as the label allows -/
def Trans (k : K) (l : Label) (s : Nat) (w w' : WS) : Prop :=
  w'.field = w.field ∨
  match l with
  | .api .mine sid => sid = s ∧ w.field = .ready ∧ w'.field = .mining
  | .api .stop sid => sid = s ∧ w.field = .mining ∧ w'.field = .ready
  | .step1 => ∃ r, k.popped = some r ∧ r.sid = s ∧ r.epoch = w.epoch ∧
      ((w.field = .registered ∧ w'.field = .plotting) ∨
       (r.wouldMining = true ∧ w.field = .ready ∧ w'.field = .mining))
  | .step3 => k.pc = .finished s ∧ w.field = .plotting ∧
      w'.field = (if !w.done then St.registered
                  else if (k.popped.map (·.wouldMining)).getD false then St.mining else St.ready)
  | _ => False

structure MicroEff (k : K) (l : Label) (k' : K) : Prop where
  wsNone : ∀ s, k.ws s = none → k'.ws s = none
  wsSome : ∀ s w, k.ws s = some w → ∃ w', k'.ws s = some w' ∧ w.epoch ≤ w'.epoch ∧ Trans k l s w w' ∧
    (w'.filesExist = w.filesExist ∨ l = .api .delete s)
  req : ∀ r, (r ∈ k'.chan ∨ r ∈ k'.queue) → (r ∈ k.chan ∨ r ∈ k.queue) ∨
    ((l = .api .plot r.sid ∨ l = .api .mine r.sid) ∧ ∃ w, k.ws r.sid = some w ∧ r.epoch = w.epoch)
  pop : k'.pc = .popped → ∀ r, k'.popped = some r → r ∈ k.queue ∨
    (k.pc = .popped ∧ ∃ r0, k.popped = some r0 ∧ r0.sid = r.sid ∧ r0.epoch = r.epoch)
  wm : ∀ r', k'.popped = some r' → r'.wouldMining = true →
    (∃ r, k.popped = some r ∧ r.sid = r'.sid ∧ r.wouldMining = true) ∨ l = .api .mine r'.sid ∨ k'.pc = .popped
  deleted : k'.deleted = k.deleted ∨ ∃ sid, l = .api .delete sid

/-- the spaces are untouched -/
theorem MicroEff.of_ws_eq {k k' : K} {l : Label} (hws : k'.ws = k.ws)
    (hreq : ∀ r, (r ∈ k'.chan ∨ r ∈ k'.queue) → (r ∈ k.chan ∨ r ∈ k.queue))
    (hpop : k'.pc = .popped → ∀ r, k'.popped = some r → r ∈ k.queue ∨
      (k.pc = .popped ∧ ∃ r0, k.popped = some r0 ∧ r0.sid = r.sid ∧ r0.epoch = r.epoch))
    (hwm : ∀ r', k'.popped = some r' → r'.wouldMining = true →
      (∃ r, k.popped = some r ∧ r.sid = r'.sid ∧ r.wouldMining = true) ∨ k'.pc = .popped)
    (hdel : k'.deleted = k.deleted) : MicroEff k l k' := by
  refine ⟨fun s h => by rw [hws]; exact h, fun s w hw => ⟨w, by rw [hws]; exact hw, Nat.le_refl _, Or.inl rfl, Or.inl rfl⟩,
    fun r hr => Or.inl (hreq r hr), hpop, ?_, Or.inl hdel⟩
  intro r' h1 h2
  rcases hwm r' h1 h2 with h | h
  · exact Or.inl h
  · exact Or.inr (Or.inr h)

theorem loopTop_ws (k : K) : (loopTop k).ws = k.ws := by
  unfold loopTop; split
  · rfl
  · split <;> rfl
theorem loopTop_chan (k : K) : (loopTop k).chan = k.chan := by
  unfold loopTop; split
  · rfl
  · split <;> rfl
theorem loopTop_deleted (k : K) : (loopTop k).deleted = k.deleted := by
  unfold loopTop; split
  · rfl
  · split <;> rfl
theorem loopTop_queue (k : K) : ∀ r, r ∈ (loopTop k).queue → r ∈ k.queue := by
  unfold loopTop; split
  · exact fun _ h => h
  · split
    · intro r h; simp [exitNow] at h
    · exact fun _ h => h
theorem loopTop_pc (k : K) : (loopTop k).pc ≠ .popped := by
  unfold loopTop; split
  · intro h; cases h
  · split <;> (intro h; cases h)
theorem loopTop_popped (k : K) : ∀ r, (loopTop k).popped = some r → k.popped = some r := by
  unfold loopTop; split
  · exact fun _ h => h
  · split
    · intro r h; simp [exitNow] at h
    · exact fun _ h => h

/-- after a change that leaves the spaces alone, the loop top -/
theorem MicroEff.loopTop_of {k k1 : K} {l : Label} (h : MicroEff k l k1) (hp : k1.popped = k.popped) :
    MicroEff k l (loopTop k1) := by
  obtain ⟨h1, h2, h3, h4, h5, h6⟩ := h
  refine ⟨?_, ?_, ?_, ?_, ?_, ?_⟩
  · intro s hs; rw [loopTop_ws]; exact h1 s hs
  · intro s w hw; rw [loopTop_ws]; exact h2 s w hw
  · intro r hr; rw [loopTop_chan] at hr
    exact h3 r (hr.elim Or.inl (fun hq => Or.inr (loopTop_queue k1 r hq)))
  · intro hp; exact absurd hp (loopTop_pc k1)
  · intro r' hr' hw
    have := loopTop_popped k1 r' hr'
    rw [hp] at this
    exact Or.inl ⟨r', this, rfl, hw⟩
  · rw [loopTop_deleted]; exact h6

/-- `setWS` at one space by an `f` that keeps epoch and files -/
theorem MicroEff.of_setWS {k k' : K} {l : Label} (sid : Nat) (f : WS → WS) (hws : k'.ws = (setWS k sid f).ws)
    (hf : ∀ w, k.ws sid = some w → w.epoch ≤ (f w).epoch ∧ Trans k l sid w (f w) ∧ (f w).filesExist = w.filesExist)
    (hreq : ∀ r, (r ∈ k'.chan ∨ r ∈ k'.queue) → (r ∈ k.chan ∨ r ∈ k.queue))
    (hpc : k'.pc = .popped → k.pc = .popped) (hpop : k'.popped = k.popped) (hdel : k'.deleted = k.deleted) :
    MicroEff k l k' := by
  refine ⟨?_, ?_, fun r hr => Or.inl (hreq r hr), fun hp r hr => Or.inr ⟨hpc hp, r, hpop ▸ hr, rfl, rfl⟩, ?_, Or.inl hdel⟩
  · intro s hs; rw [hws]
    by_cases h : s = sid
    · subst h; simp [hs]
    · simp [h, hs]
  · intro s w hw; rw [hws]
    by_cases h : s = sid
    · subst h
      obtain ⟨a1, a2, a3⟩ := hf w hw
      exact ⟨f w, by simp [hw], a1, a2, Or.inl a3⟩
    · exact ⟨w, by simp [h, hw], Nat.le_refl _, Or.inl rfl, Or.inl rfl⟩
  · intro r' h1 h2; rw [hpop] at h1; exact Or.inl ⟨r', h1, rfl, h2⟩

theorem micro_eff {k k' : K} {l : Label} (h : Inv k) (hm : micro k l = some k') : MicroEff k l k' := by
  unfold micro at hm
  split at hm
  · cases hm
  cases l with
  | api a sid =>
    simp only [Option.some.injEq] at hm
    have ha := act_eff a sid h
    have hpc := (act_ok a sid h).pc
    -- the two shapes of k' share spaces, requests, popped item and deleted list with `(act k a sid).1`
    have key : ∀ k2 : K, k2.ws = (act k a sid).1.ws → k2.chan = (act k a sid).1.chan → k2.queue = (act k a sid).1.queue →
        k2.popped = (act k a sid).1.popped → k2.deleted = (act k a sid).1.deleted →
        (k2.pc = .popped → k.pc = .popped) → MicroEff k (.api a sid) k2 := by
      intro k2 e1 e2 e3 e4 e5 e6
      refine ⟨?_, ?_, ?_, ?_, ?_, ?_⟩
      · intro s hs; rw [e1]
        by_cases hh : s = sid
        · subst hh; exact ha.none hs
        · rw [ha.other s hh]; exact hs
      · intro s w hw; rw [e1]
        by_cases hh : s = sid
        · subst hh
          obtain ⟨w1, b1, b2, b3, b4⟩ := ha.at_sid w hw
          refine ⟨w1, b1, b2, ?_, ?_⟩
          · rcases b3 with b3 | ⟨rfl, b3⟩ | ⟨rfl, b3⟩
            · exact Or.inl b3
            · exact Or.inr ⟨rfl, b3⟩
            · exact Or.inr ⟨rfl, b3⟩
          · rcases b4 with b4 | rfl
            · exact Or.inl b4
            · exact Or.inr rfl
        · exact ⟨w, by rw [ha.other s hh]; exact hw, Nat.le_refl _, Or.inl rfl, Or.inl rfl⟩
      · intro r hr; rw [e2, e3] at hr
        rcases hr with hr | hr
        · rcases ha.chan r hr with c | ⟨c1, c2, c3⟩
          · exact Or.inl (Or.inl c)
          · subst c1
            exact Or.inr ⟨c2.elim (fun e => Or.inl (e ▸ rfl)) (fun e => Or.inr (e ▸ rfl)), c3⟩
        · exact Or.inl (Or.inr (ha.queue r hr))
      · intro hp r hr
        refine Or.inr ⟨e6 hp, ?_⟩
        rw [e4] at hr
        rcases ha.popped with c | ⟨b, r0, c1, c2, c3, _⟩
        · exact ⟨r, c ▸ hr, rfl, rfl⟩
        · rw [c3] at hr; cases hr; exact ⟨r0, c1, rfl, rfl⟩
      · intro r' hr' hw
        rw [e4] at hr'
        rcases ha.popped with c | ⟨b, r0, c1, c2, c3, c4⟩
        · exact Or.inl ⟨r', c ▸ hr', rfl, hw⟩
        · rw [c3] at hr'; cases hr'
          have : a = .mine := c4 hw
          subst this
          exact Or.inr (Or.inl (by rw [← c2]))
      · rw [e5]
        rcases ha.deleted with c | rfl
        · exact Or.inl c
        · exact Or.inr ⟨sid, rfl⟩
    split at hm
    · subst hm
      exact key _ rfl rfl rfl rfl rfl (by intro hp; cases hp)
    · subst hm
      exact key _ rfl rfl rfl rfl rfl (by intro hp; rw [← hpc]; exact hp)
  | recv =>
    dsimp only at hm
    split at hm
    · cases hm
      refine MicroEff.loopTop_of (MicroEff.of_ws_eq rfl ?_ (by intro hp; rename_i hc; simp only [Bool.and_eq_true, beq_iff_eq] at hc; rw [hc.1.1] at hp; cases hp) (fun r' h1 h2 => Or.inl ⟨r', h1, rfl, h2⟩) rfl) rfl
      intro r hr
      rcases hr with hr | hr
      · simp at hr
      · rcases mem_foldl_enqueue hr with hr | hr
        · exact Or.inr hr
        · exact Or.inl hr
    · cases hm
  | pop wm ep =>
    dsimp only at hm
    split at hm
    · rename_i hc
      simp only [beq_iff_eq] at hc
      split at hm
      · cases hm
        exact MicroEff.loopTop_of (MicroEff.of_ws_eq rfl (fun _ hr => hr) (by intro hp; rw [hc] at hp; cases hp) (fun r' h1 h2 => Or.inl ⟨r', h1, rfl, h2⟩) rfl) rfl
      · rename_i top rest hq
        split at hm
        · rename_i hmem
          cases hm
          have hmem' : (⟨top.sid, wm, ep⟩ : Req) ∈ k.queue := by simpa using hmem
          refine MicroEff.of_ws_eq rfl ?_ ?_ (fun _ _ _ => Or.inr rfl) rfl
          · intro r hr
            rcases hr with hr | hr
            · exact Or.inl hr
            · exact Or.inr (List.mem_of_mem_erase hr)
          · intro _ r hr
            simp only [Option.some.injEq] at hr; subst hr
            exact Or.inl hmem'
        · cases hm
    · cases hm
  | step1 =>
    dsimp only at hm
    split at hm
    · rename_i hc
      simp only [beq_iff_eq] at hc
      have hsome := h.pl.pop hc
      have hsame : MicroEff k .step1 (loopTop k) :=
        MicroEff.loopTop_of (MicroEff.of_ws_eq rfl (fun _ hr => hr)
          (fun _ r hr => Or.inr ⟨hc, r, hr, rfl, rfl⟩) (fun r' h1 h2 => Or.inl ⟨r', h1, rfl, h2⟩) rfl) rfl
      cases hp : k.popped with
      | none => simp [hp] at hsome
      | some r =>
        simp only [hp, find] at hm
        cases hw : k.ws r.sid with
        | none => simp only [hw] at hm; cases hm; exact hsame
        | some w =>
          simp only [hw] at hm
          split at hm
          · cases hm; exact hsame
          · rename_i hep
            have hep' : r.epoch = w.epoch := by simpa using hep
            split at hm
            · rename_i hi
              cases hm
              refine MicroEff.of_setWS r.sid _ rfl ?_ (fun _ hr => hr) ?_ rfl rfl
              · intro w0 hw0; rw [hw] at hw0; cases hw0
                exact ⟨Nat.le_refl _, Or.inr ⟨r, hp, rfl, hep', Or.inl ⟨field_of_inState h.i0 hw hi, rfl⟩⟩, rfl⟩
              · simp only; split <;> (intro hh; cases hh)
            · split at hm
              · rename_i hi
                simp only [Bool.and_eq_true] at hi
                cases hm
                refine MicroEff.loopTop_of (MicroEff.of_setWS r.sid _ rfl ?_ (fun _ hr => hr) ?_ rfl rfl) rfl
                · intro w0 hw0; rw [hw] at hw0; cases hw0
                  exact ⟨Nat.le_refl _, Or.inr ⟨r, hp, rfl, hep', Or.inr ⟨hi.2, field_of_inState h.i0 hw hi.1, rfl⟩⟩, rfl⟩
                · exact fun _ => hc
              · cases hm; exact hsame
    · cases hm
  | plotEnds d =>
    dsimp only at hm
    split at hm
    · rename_i sid hc
      cases hm
      cases d with
      | false =>
        exact MicroEff.of_ws_eq rfl (fun _ hr => hr) (by intro hp; cases hp) (fun r' h1 h2 => Or.inl ⟨r', h1, rfl, h2⟩) rfl
      | true =>
        simp only [if_true]
        refine MicroEff.of_setWS sid _ rfl ?_ (fun _ hr => hr) (by intro hp; cases hp) rfl rfl
        intro w0 _
        exact ⟨Nat.le_refl _, Or.inl rfl, rfl⟩
    · cases hm
  | step3 =>
    dsimp only at hm
    split at hm
    · rename_i sid hc
      cases hm
      obtain ⟨w, hw, hf⟩ := h.pl.pcw sid (by rw [hc]; rfl)
      simp only [step3, find, hw]
      refine MicroEff.loopTop_of (MicroEff.of_setWS sid _ rfl ?_ (fun _ hr => hr) (fun hp => hp) rfl rfl) rfl
      intro w0 hw0; rw [hw] at hw0; cases hw0
      exact ⟨Nat.le_refl _, Or.inr ⟨hc, hf, rfl⟩, rfl⟩
    · cases hm
  | start =>
    dsimp only at hm
    split at hm
    · rename_i hc
      simp only [beq_iff_eq] at hc
      cases hm
      exact MicroEff.loopTop_of (MicroEff.of_ws_eq rfl (fun _ hr => hr) (by intro hp; rw [hc] at hp; cases hp) (fun r' h1 h2 => Or.inl ⟨r', h1, rfl, h2⟩) rfl) rfl
    · cases hm
  | quit =>
    dsimp only at hm
    split at hm
    · split at hm
      · cases hm
        exact MicroEff.of_ws_eq rfl (fun _ hr => hr) (by intro hp; cases hp) (fun r' h1 h2 => Or.inl ⟨r', h1, rfl, h2⟩) rfl
      · cases hm
        exact MicroEff.of_ws_eq rfl (fun _ hr => hr) (fun hp r hr => Or.inr ⟨hp, r, hr, rfl, rfl⟩) (fun r' h1 h2 => Or.inl ⟨r', h1, rfl, h2⟩) rfl
    · cases hm
  | exit d =>
    dsimp only at hm
    split at hm
    · cases hm
      refine MicroEff.of_ws_eq rfl ?_ (by intro hp; cases hp) (by intro r' h1; simp [exitNow] at h1) rfl
      intro r hr
      simp only [exitNow] at hr
      rcases hr with hr | hr
      · split at hr
        · simp at hr
        · exact Or.inl hr
      · simp at hr
    · cases hm

/-! ### a stopped space stays quiet -/

/-- after a stop, until the space is asked to plot or mine again: every request for it that still
    waits anywhere is void, it is not mining, and if it is (still) plotting the plot will not go on to mining -/
structure Quiet (k : K) (sid : Nat) : Prop where
  stale : ∀ r, (r ∈ k.chan ∨ r ∈ k.queue) → r.sid = sid → ∀ w, k.ws sid = some w → r.epoch < w.epoch
  pop : k.pc = .popped → ∀ r, k.popped = some r → r.sid = sid → ∀ w, k.ws sid = some w → r.epoch < w.epoch
  nm : ∀ w, k.ws sid = some w → w.field ≠ .mining
  wm : ∀ w, k.ws sid = some w → w.field = .plotting → ∀ r, k.popped = some r → r.wouldMining = false

theorem quiet_step {k k' : K} {l : Label} {sid : Nat} (h : Inv k) (hq : Quiet k sid) (hm : micro k l = some k')
    (h1 : l ≠ .api .plot sid) (h2 : l ≠ .api .mine sid) :
    Quiet k' sid ∧ ∀ w w', k.ws sid = some w → k'.ws sid = some w' →
      (w'.field = .plotting → w.field = .plotting) := by
  have he := micro_eff h hm
  have h' := micro_inv h hm
  -- the space's state does not move into plotting or mining
  have hfield : ∀ w w', k.ws sid = some w → k'.ws sid = some w' →
      (w'.field = .plotting → w.field = .plotting) ∧ w'.field ≠ .mining := by
    intro w w' hw hw'
    obtain ⟨w'', e1, e2, e3, _⟩ := he.wsSome sid w hw
    rw [hw'] at e1; cases e1
    have hnm := hq.nm w hw
    rcases e3 with e3 | e3
    · rw [e3]; exact ⟨fun x => x, hnm⟩
    · cases l with
      | api a s0 =>
        cases a with
        | mine => obtain ⟨rfl, _, _⟩ := e3; exact absurd rfl h2
        | stop => obtain ⟨_, _, e⟩ := e3; rw [e]; exact ⟨(by intro x; cases x), (by intro x; cases x)⟩
        | plot => exact e3.elim
        | remove => exact e3.elim
        | delete => exact e3.elim
      | step1 =>
        obtain ⟨r, r1, r2, r3, _⟩ := e3
        have hpc : k.pc = .popped := by
          unfold micro at hm; split at hm
          · cases hm
          · dsimp only at hm; split at hm
            · rename_i hc; simpa using hc
            · cases hm
        have := hq.pop hpc r r1 r2 w hw
        omega
      | step3 =>
        obtain ⟨s1, s2, s3⟩ := e3
        obtain ⟨_, _, r, r1, _⟩ := h.pl.plot sid w hw s2
        have hwm := hq.wm w hw s2 r r1
        rw [s3]
        simp only [r1, Option.map_some, Option.getD_some, hwm]
        split <;> exact ⟨(by intro x; cases x), (by intro x; cases x)⟩
      | recv => exact e3.elim
      | pop _ _ => exact e3.elim
      | plotEnds _ => exact e3.elim
      | start => exact e3.elim
      | quit => exact e3.elim
      | exit _ => exact e3.elim
  refine ⟨⟨?_, ?_, ?_, ?_⟩, fun w w' hw hw' => (hfield w w' hw hw').1⟩
  · intro r hr hs w' hw'
    cases hw : k.ws sid with
    | none => have := he.wsNone sid hw; rw [hw'] at this; cases this
    | some w =>
      obtain ⟨w'', e1, e2, _, _⟩ := he.wsSome sid w hw
      rw [hw'] at e1; cases e1
      rcases he.req r hr with c | ⟨c, _⟩
      · exact Nat.lt_of_lt_of_le (hq.stale r c hs w hw) e2
      · rw [hs] at c; rcases c with c | c
        · exact absurd c h1
        · exact absurd c h2
  · intro hp r hr hs w' hw'
    cases hw : k.ws sid with
    | none => have := he.wsNone sid hw; rw [hw'] at this; cases this
    | some w =>
      obtain ⟨w'', e1, e2, _, _⟩ := he.wsSome sid w hw
      rw [hw'] at e1; cases e1
      rcases he.pop hp r hr with c | ⟨c1, r0, c2, c3, c4⟩
      · exact Nat.lt_of_lt_of_le (hq.stale r (Or.inr c) hs w hw) e2
      · rw [← c4]
        exact Nat.lt_of_lt_of_le (hq.pop c1 r0 c2 (c3.trans hs) w hw) e2
  · intro w' hw'
    cases hw : k.ws sid with
    | none => have := he.wsNone sid hw; rw [hw'] at this; cases this
    | some w => exact (hfield w w' hw hw').2
  · intro w' hw' hf r' hr'
    cases hw : k.ws sid with
    | none => have := he.wsNone sid hw; rw [hw'] at this; cases this
    | some w =>
      have hf0 := (hfield w w' hw hw').1 hf
      cases hb : r'.wouldMining with
      | false => rfl
      | true =>
        exfalso
        obtain ⟨_, _, rr, rr1, rr2⟩ := h'.pl.plot sid w' hw' hf
        rw [hr'] at rr1; cases rr1
        rcases he.wm r' hr' hb with ⟨r, c1, c2, c3⟩ | c | c
        · have := hq.wm w hw hf0 r c1; rw [c3] at this; cases this
        · rw [rr2] at c; exact h2 c
        · have := (h'.pl.plot sid w' hw' hf).2.1
          rw [c] at this; cases this

theorem quiet_run {k k' : K} {sid : Nat} (ls : List Label) (h : Inv k) (hq : Quiet k sid)
    (hno : ∀ l, l ∈ ls → l ≠ .api .plot sid ∧ l ≠ .api .mine sid) (hr : run k ls = some k') :
    Quiet k' sid ∧ ∀ w w', k.ws sid = some w → k'.ws sid = some w' →
      (w'.field = .plotting → w.field = .plotting) := by
  induction ls generalizing k with
  | nil =>
    simp [run] at hr; subst hr
    exact ⟨hq, fun w w' hw hw' hf => by rw [hw] at hw'; cases hw'; exact hf⟩
  | cons l ls ih =>
    simp only [run] at hr
    cases hm : micro k l with
    | none => simp [hm] at hr
    | some k1 =>
      simp [hm] at hr
      obtain ⟨q1, f1⟩ := quiet_step h hq hm (hno l (by simp)).1 (hno l (by simp)).2
      obtain ⟨q2, f2⟩ := ih (micro_inv h hm) q1 (fun l' hl' => hno l' (by simp [hl'])) hr
      refine ⟨q2, fun w w' hw hw' hf => ?_⟩
      have he := micro_eff h hm
      obtain ⟨w1, e1, _⟩ := he.wsSome sid w hw
      exact f1 w w1 hw e1 (f2 w1 w' e1 hw' hf)

theorem quiet_after_stop {k k1 : K} {sid : Nat} (h : Inv k)
    (hok : (act k .stop sid).2 = .ok ()) (hm : micro k (.api .stop sid) = some k1) : Quiet k1 sid := by
  cases hw : k.ws sid with
  | none => simp [act, find, hw] at hok
  | some w =>
    have hpc : k1.pc = .popped → k.pc = .popped := by
      unfold micro at hm; split at hm
      · cases hm
      · simp only [Option.some.injEq] at hm
        split at hm
        · subst hm; intro hp; cases hp
        · subst hm; intro hp; rw [← (act_ok .stop sid h).pc]; exact hp
    have hk1 : k1.ws = (act k .stop sid).1.ws ∧ k1.chan = (act k .stop sid).1.chan ∧
        k1.queue = (act k .stop sid).1.queue ∧ k1.popped = (act k .stop sid).1.popped := by
      unfold micro at hm; split at hm
      · cases hm
      · simp only [Option.some.injEq] at hm
        split at hm <;> (subst hm; exact ⟨rfl, rfl, rfl, rfl⟩)
    obtain ⟨e1, e2, e3, e4⟩ := hk1
    have hcq : ∀ r, r ∈ (cancel k sid).queue → r ∈ k.queue := by
      intro r hr; simp only [cancel, purge, List.mem_filter] at hr; exact hr.1
    have hold : ∀ r, (r ∈ k.chan ∨ r ∈ k.queue ∨ k.popped = some r) → r.sid = sid → r.epoch < w.epoch + 1 := by
      intro r hr hs
      have := h.i0.ep r hr w (hs ▸ hw)
      omega
    -- shape of the result, branch by branch
    have key : ∃ w1, k1.ws sid = some w1 ∧ w1.epoch = w.epoch + 1 ∧ w1.field ≠ .mining ∧
        (∀ r, r ∈ k1.chan → r ∈ k.chan) ∧ (∀ r, r ∈ k1.queue → r ∈ k.queue) ∧
        (∀ r, k1.popped = some r → ∃ r0, k.popped = some r0 ∧ r0.sid = r.sid ∧ r0.epoch = r.epoch) ∧
        (w1.field = .plotting → ∀ r, k1.popped = some r → r.wouldMining = false) := by
      rw [e1, e2, e3, e4]
      have huse : (!(w.inAll && w.inUse)) = false := by
        cases hu : (!(w.inAll && w.inUse)) with
        | false => rfl
        | true => simp [act, find, hw, hu] at hok
      have hall : w.inAll = true := by
        cases ha : w.inAll <;> simp [ha] at huse ⊢
      have hc := cancel_ws_sid (sid := sid) hw
      simp only [act, find, hw, huse, Bool.false_eq_true, if_false]
      split
      · rename_i hi
        obtain ⟨r, hr, hrs⟩ := popped_of_plotting h hw hi
        have hfp := field_of_inState h.i0 hw hi
        simp only [cancel_popped, hr]
        split
        · rename_i hne; simp [hrs] at hne
        · refine ⟨_, hc, rfl, by simp [hfp], fun _ x => x, hcq, ?_, ?_⟩
          · intro r' hr'; simp [setPoppedWM, hr] at hr'; subst hr'; exact ⟨r, rfl, rfl, rfl⟩
          · intro _ r' hr'; simp [setPoppedWM, hr] at hr'; subst hr'; rfl
      · rename_i hnp
        split
        · refine ⟨move { w with epoch := w.epoch + 1 } .mining .ready, by simp [hc], rfl, by simp [move],
            fun _ x => x, hcq, fun r' hr' => ⟨r', hr', rfl, rfl⟩, ?_⟩
          intro hf; simp [move] at hf
        · rename_i hnm
          have hidx := (h.i0.base sid w hw).idx
          simp only [hall, if_true] at hidx
          refine ⟨_, hc, rfl, ?_, fun _ x => x, hcq, fun r' hr' => ⟨r', hr', rfl, rfl⟩, ?_⟩
          · intro hf; apply hnm; simp [inState, hidx]; exact hf.symm
          · intro hf; exfalso; apply hnp; simp [inState, hidx]; exact hf.symm
    obtain ⟨w1, a1, a2, a3, a4, a5, a6, a7⟩ := key
    refine ⟨?_, ?_, ?_, ?_⟩
    · intro r hr hs w' hw'; rw [a1] at hw'; cases hw'
      rw [a2]
      exact hold r (hr.elim (fun x => Or.inl (a4 r x)) (fun x => Or.inr (Or.inl (a5 r x)))) hs
    · intro hp r hr hs w' hw'; rw [a1] at hw'; cases hw'
      obtain ⟨r0, b1, b2, b3⟩ := a6 r hr
      rw [a2, ← b3]
      exact hold r0 (Or.inr (Or.inr b1)) (b2.trans hs)
    · intro w' hw'; rw [a1] at hw'; cases hw'; exact a3
    · intro w' hw' hf; rw [a1] at hw'; cases hw'; exact a7 hf

/-! ### `quit` and the plotter goroutine -/

theorem loopTop_qinv (k : K) : (loopTop k).quitting = true → (loopTop k).pc ≠ .exited := by
  unfold loopTop
  split
  · intro _ h; cases h
  · split
    · intro h; simp [exitNow] at h
    · intro _ h; cases h

/-- `quit` is closed only while a plotter goroutine exists -/
theorem micro_qinv {k k' : K} {l : Label} (h : Inv k) (hq : k.quitting = true → k.pc ≠ .exited)
    (hm : micro k l = some k') : k'.quitting = true → k'.pc ≠ .exited := by
  unfold micro at hm
  split at hm
  · cases hm
  cases l with
  | api a sid =>
    simp only [Option.some.injEq] at hm
    have ha := act_ok a sid h
    split at hm
    · subst hm; intro _ hh; cases hh
    · subst hm; rw [ha.qt, ha.pc]; exact hq
  | recv => dsimp only at hm; split at hm <;> cases hm; exact loopTop_qinv _
  | pop wm ep =>
    dsimp only at hm
    split at hm
    · split at hm
      · cases hm; exact loopTop_qinv _
      · split at hm
        · cases hm; intro _ hh; cases hh
        · cases hm
    · cases hm
  | step1 =>
    dsimp only at hm
    split at hm
    · rename_i hc
      simp only [beq_iff_eq] at hc
      split at hm
      · cases hm; intro _ hh; rw [hc] at hh; cases hh
      · split at hm
        · cases hm; exact loopTop_qinv _
        · split at hm
          · cases hm; exact loopTop_qinv _
          · split at hm
            · cases hm; intro _ hh; simp only at hh; split at hh <;> cases hh
            · split at hm <;> (cases hm; exact loopTop_qinv _)
    · cases hm
  | plotEnds d => dsimp only at hm; split at hm <;> cases hm; intro _ hh; cases hh
  | step3 => dsimp only at hm; split at hm <;> cases hm; exact loopTop_qinv _
  | start => dsimp only at hm; split at hm <;> cases hm; exact loopTop_qinv _
  | quit =>
    dsimp only at hm
    split at hm
    · rename_i hc
      simp only [Bool.and_eq_true, bne_iff_ne, ne_eq] at hc
      split at hm
      · cases hm; intro _ hh; cases hh
      · cases hm; intro _; exact hc.1
    · cases hm
  | exit d => dsimp only at hm; split at hm <;> cases hm; intro hh; simp [exitNow] at hh

theorem reachable_qinv {n : Nat} {k : K} (ls : List Label) (hr : run (initK n) ls = some k) :
    k.quitting = true → k.pc ≠ .exited := by
  suffices ∀ k0, Inv k0 → (k0.quitting = true → k0.pc ≠ .exited) → run k0 ls = some k →
      (k.quitting = true → k.pc ≠ .exited) from
    this (initK n) (inv_init n) (by intro h; simp [initK] at h) hr
  clear hr
  intro k0 hi hq hr
  induction ls generalizing k0 with
  | nil => simp [run] at hr; subst hr; exact hq
  | cons l ls ih =>
    simp only [run] at hr
    cases hm : micro k0 l with
    | none => simp [hm] at hr
    | some k1 => simp [hm] at hr; exact ih k1 (micro_inv hi hm) (micro_qinv hi hq hm) hr

end MassVerif.Keeper
