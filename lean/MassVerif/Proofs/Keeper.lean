/-
Invariants of the keeper transition system (`Model/Keeper.lean`) and their
preservation by every label.  Helper lemmas only; the property theorems are in
`Props/C09.lean`, `Props/C11.lean` (actions) and `Props/C13.lean`.
-/
import MassVerif.Model.Keeper

namespace MassVerif.Keeper

/-- the space whose plot the plotter is waiting for, or has just seen return -/
def pcSid : Pc → Option Nat
  | .plotting s => some s
  | .finished s => some s
  | _ => none

/-- facts about one space that do not depend on where the plotter is -/
structure WSBase (k : K) (s : Nat) (w : WS) : Prop where
  idx : w.idx = if w.inAll then [w.field] else []
  use : w.inUse = true → w.inAll = true
  listed : w.inUse = true ↔ s ∈ k.list

/-- the part of the invariant that does not mention the plotter's position -/
structure Inv0 (k : K) : Prop where
  base : ∀ s w, k.ws s = some w → WSBase k s w
  list : ∀ s, s ∈ k.list → ∃ w, k.ws s = some w
  np : k.panicked = false
  cap : k.chan.length ≤ chanCap
  /-- no request is newer than its space -/
  ep : ∀ r, (r ∈ k.chan ∨ r ∈ k.queue ∨ k.popped = some r) → ∀ w, k.ws r.sid = some w → r.epoch ≤ w.epoch

/-- the plotter's position and the plotting state go together -/
structure PlotInv (k : K) : Prop where
  /-- a space in the plotting state is the one the plotter holds, and the popped item names it -/
  plot : ∀ s w, k.ws s = some w → w.field = .plotting →
    w.inAll = true ∧ pcSid k.pc = some s ∧ ∃ r, k.popped = some r ∧ r.sid = s
  pcw : ∀ s, pcSid k.pc = some s → ∃ w, k.ws s = some w ∧ w.field = .plotting
  fresh : ∀ s w, k.pc = .plotting s → k.ws s = some w → w.done = false
  pop : k.pc = .popped → k.popped.isSome = true

structure Inv (k : K) : Prop where
  i0 : Inv0 k
  pl : PlotInv k

theorem inv_init (n : Nat) : Inv (initK n) := by
  constructor <;> constructor <;> simp [initK, chanCap, pcSid]
  · intro s hs
    constructor <;> simp [hs]

/-! ### `setWS` -/

@[simp] theorem setWS_same (k : K) (sid : Nat) (f : WS → WS) : (setWS k sid f).ws sid = (k.ws sid).map f := by
  simp [setWS]
@[simp] theorem setWS_ne (k : K) {s sid : Nat} (f : WS → WS) (h : s ≠ sid) : (setWS k sid f).ws s = k.ws s := by
  simp [setWS, h]
@[simp] theorem setWS_list (k : K) (sid : Nat) (f : WS → WS) : (setWS k sid f).list = k.list := rfl
@[simp] theorem setWS_chan (k : K) (sid : Nat) (f : WS → WS) : (setWS k sid f).chan = k.chan := rfl
@[simp] theorem setWS_queue (k : K) (sid : Nat) (f : WS → WS) : (setWS k sid f).queue = k.queue := rfl
@[simp] theorem setWS_popped (k : K) (sid : Nat) (f : WS → WS) : (setWS k sid f).popped = k.popped := rfl
@[simp] theorem setWS_pc (k : K) (sid : Nat) (f : WS → WS) : (setWS k sid f).pc = k.pc := rfl
@[simp] theorem setWS_quitting (k : K) (sid : Nat) (f : WS → WS) : (setWS k sid f).quitting = k.quitting := rfl
@[simp] theorem setWS_panicked (k : K) (sid : Nat) (f : WS → WS) : (setWS k sid f).panicked = k.panicked := rfl
@[simp] theorem setWS_deleted (k : K) (sid : Nat) (f : WS → WS) : (setWS k sid f).deleted = k.deleted := rfl

/-- what `setWS` leaves at an arbitrary index -/
theorem setWS_cases (k : K) (sid s : Nat) (f : WS → WS) (w' : WS) (h : (setWS k sid f).ws s = some w') :
    (s = sid ∧ ∃ w, k.ws sid = some w ∧ w' = f w) ∨ (s ≠ sid ∧ k.ws s = some w') := by
  by_cases hs : s = sid
  · subst hs
    simp at h
    obtain ⟨w, hw, rfl⟩ := h
    exact Or.inl ⟨rfl, w, hw, rfl⟩
  · simp [hs] at h; exact Or.inr ⟨hs, h⟩

theorem idx_of_inState {k : K} {s : Nat} {w : WS} {st : St} (h : Inv0 k) (hw : k.ws s = some w) (hi : inState w st = true) :
    w.inAll = true ∧ w.field = st ∧ w.idx = [st] := by
  have hb := (h.base s w hw).idx
  unfold inState at hi
  cases ha : w.inAll <;> simp [ha] at hb <;> simp [hb] at hi
  simp [hi, hb]

/-! ### `Inv0` is preserved by the building blocks -/

/-- a change of one space that keeps what `WSBase` looks at, and does not lower the epoch -/
theorem inv0_setWS {k : K} {sid : Nat} (f : WS → WS) (h : Inv0 k)
    (hf : ∀ w, k.ws sid = some w →
      ((f w).idx = if (f w).inAll then [(f w).field] else []) ∧ ((f w).inUse = true → (f w).inAll = true) ∧
      (f w).inUse = w.inUse ∧ w.epoch ≤ (f w).epoch) :
    Inv0 (setWS k sid f) := by
  obtain ⟨hb, hl, hn, hc, he⟩ := h
  refine ⟨?_, ?_, hn, hc, ?_⟩
  · intro s w' hw'
    rcases setWS_cases k sid s f w' hw' with ⟨rfl, w, hw, rfl⟩ | ⟨_, hw⟩
    · obtain ⟨h1, h2, h3, _⟩ := hf w hw
      exact ⟨h1, h2, by rw [h3]; exact (hb _ w hw).listed⟩
    · exact ⟨(hb s w' hw).idx, (hb s w' hw).use, (hb s w' hw).listed⟩
  · intro s hs
    obtain ⟨w, hw⟩ := hl s hs
    by_cases h2 : s = sid
    · subst h2; exact ⟨f w, by simp [hw]⟩
    · exact ⟨w, by simp [h2, hw]⟩
  · intro r hr w' hw'
    rcases setWS_cases k sid r.sid f w' hw' with ⟨h2, w, hw, rfl⟩ | ⟨_, hw⟩
    · exact Nat.le_trans (he r hr w (h2 ▸ hw)) (hf w hw).2.2.2
    · exact he r hr w' hw

theorem inv0_move {k : K} {sid : Nat} {w : WS} (old new : St) (h : Inv0 k) (hw : k.ws sid = some w)
    (hi : inState w old = true) : Inv0 (setWS k sid (fun w => move w old new)) := by
  obtain ⟨ha, hf, hx⟩ := idx_of_inState h hw hi
  apply inv0_setWS _ h
  intro w0 hw0
  rw [hw] at hw0; cases hw0
  have hu := (h.base sid w hw).use
  simp [move, ha, hx]

theorem inv0_setPoppedWM {k : K} (b : Bool) (h : Inv0 k) : Inv0 (setPoppedWM k b) := by
  obtain ⟨hb, hl, hn, hc, he⟩ := h
  refine ⟨fun s w hw => ⟨(hb s w hw).idx, (hb s w hw).use, (hb s w hw).listed⟩, hl, hn, hc, ?_⟩
  intro r hr w hw
  rcases hr with hr | hr | hr
  · exact he r (Or.inl hr) w hw
  · exact he r (Or.inr (Or.inl hr)) w hw
  · simp only [setPoppedWM] at hr
    cases hp : k.popped with
    | none => simp [hp] at hr
    | some r0 =>
      simp [hp] at hr
      subst hr
      exact he r0 (Or.inr (Or.inr hp)) w hw

theorem inv0_send {k : K} {sid : Nat} {w : WS} (b : Bool) (h : Inv0 k) (hw : k.ws sid = some w) :
    Inv0 (send k ⟨sid, b, w.epoch⟩).1 := by
  unfold send
  split
  · rename_i hlt
    obtain ⟨hb, hl, hn, hc, he⟩ := h
    refine ⟨fun s w hw => ⟨(hb s w hw).idx, (hb s w hw).use, (hb s w hw).listed⟩, hl, hn, ?_, ?_⟩
    · simp; omega
    · intro r hr w' hw'
      simp only [List.mem_append, List.mem_singleton] at hr
      rcases hr with (hr | rfl) | hr | hr
      · exact he r (Or.inl hr) w' hw'
      · simp at hw'; rw [hw] at hw'; cases hw'; exact Nat.le_refl _
      · exact he r (Or.inr (Or.inl hr)) w' hw'
      · exact he r (Or.inr (Or.inr hr)) w' hw'
  · exact h

theorem inv0_purge {k : K} (sid : Nat) (h : Inv0 k) : Inv0 (purge k sid) := by
  obtain ⟨hb, hl, hn, hc, he⟩ := h
  refine ⟨fun s w hw => ⟨(hb s w hw).idx, (hb s w hw).use, (hb s w hw).listed⟩, hl, hn, hc, ?_⟩
  intro r hr w hw
  rcases hr with hr | hr | hr
  · exact he r (Or.inl hr) w hw
  · simp only [purge, List.mem_filter] at hr; exact he r (Or.inr (Or.inl hr.1)) w hw
  · exact he r (Or.inr (Or.inr hr)) w hw

theorem inv0_cancel {k : K} (sid : Nat) (h : Inv0 k) : Inv0 (cancel k sid) := by
  unfold cancel
  apply inv0_purge
  apply inv0_setWS _ h
  intro w hw
  exact ⟨(h.base sid w hw).idx, (h.base sid w hw).use, rfl, Nat.le_succ _⟩

/-- taking a space out of the list (remove, delete) -/
theorem inv0_unlist {k : K} {sid : Nat} (f : WS → WS) (del : List Nat) (h : Inv0 k)
    (hf : ∀ w, k.ws sid = some w →
      ((f w).idx = if (f w).inAll then [(f w).field] else []) ∧ (f w).inUse = false ∧ w.epoch ≤ (f w).epoch) :
    Inv0 { (setWS k sid f) with list := k.list.filter (· != sid), deleted := del } := by
  obtain ⟨hb, hl, hn, hc, he⟩ := h
  refine ⟨?_, ?_, hn, hc, ?_⟩
  · intro s w' hw'
    rcases setWS_cases k sid s f w' hw' with ⟨rfl, w, hw, rfl⟩ | ⟨hne, hw⟩
    · obtain ⟨h1, h2, _⟩ := hf w hw
      exact ⟨h1, by simp [h2], by simp [h2]⟩
    · refine ⟨(hb s w' hw).idx, (hb s w' hw).use, ?_⟩
      simp [List.mem_filter, hne]; exact (hb s w' hw).listed
  · intro s hs
    simp only [List.mem_filter] at hs
    obtain ⟨w, hw⟩ := hl s hs.1
    have h2 : s ≠ sid := by simpa using hs.2
    exact ⟨w, by simp [h2, hw]⟩
  · intro r hr w' hw'
    rcases setWS_cases k sid r.sid f w' hw' with ⟨h2, w, hw, rfl⟩ | ⟨_, hw⟩
    · exact Nat.le_trans (he r hr w (h2 ▸ hw)) (hf w hw).2.2
    · exact he r hr w' hw

/-! ### the frame of a change, as far as the plotter's bookkeeping is concerned -/

structure Frame (k k' : K) : Prop where
  popped : k'.popped.map (·.sid) = k.popped.map (·.sid)
  fwd : ∀ s w', k'.ws s = some w' → ∃ w, k.ws s = some w ∧
    (w'.field = .plotting → w.field = .plotting ∧ w'.inAll = w.inAll ∧ w'.done = w.done)
  bwd : ∀ s w, k.ws s = some w → w.field = .plotting → ∃ w', k'.ws s = some w' ∧ w'.field = .plotting

theorem Frame.refl (k : K) : Frame k k :=
  ⟨rfl, fun _ w' h => ⟨w', h, fun hp => ⟨hp, rfl, rfl⟩⟩, fun _ w h hp => ⟨w, h, hp⟩⟩

theorem Frame.trans {a b c : K} (h1 : Frame a b) (h2 : Frame b c) : Frame a c := by
  refine ⟨h2.popped.trans h1.popped, ?_, ?_⟩
  · intro s w' hw'
    obtain ⟨w, hw, hp⟩ := h2.fwd s w' hw'
    obtain ⟨w0, hw0, hp0⟩ := h1.fwd s w hw
    refine ⟨w0, hw0, fun hf => ?_⟩
    obtain ⟨a1, a2, a3⟩ := hp hf
    obtain ⟨b1, b2, b3⟩ := hp0 a1
    exact ⟨b1, a2.trans b2, a3.trans b3⟩
  · intro s w hw hp
    obtain ⟨w1, hw1, hp1⟩ := h1.bwd s w hw hp
    exact h2.bwd s w1 hw1 hp1

/-- a change that touches neither the spaces nor the popped item -/
theorem Frame.of_eq {k k' : K} (h1 : k'.ws = k.ws) (h2 : k'.popped = k.popped) : Frame k k' := by
  refine ⟨by rw [h2], ?_, ?_⟩
  · intro s w' hw'; rw [h1] at hw'; exact ⟨w', hw', fun hp => ⟨hp, rfl, rfl⟩⟩
  · intro s w hw hp; exact ⟨w, by rw [h1]; exact hw, hp⟩

theorem frame_setWS (k : K) (sid : Nat) (f : WS → WS)
    (hf : ∀ w, k.ws sid = some w → ((f w).field = .plotting ↔ w.field = .plotting) ∧
      (w.field = .plotting → (f w).inAll = w.inAll ∧ (f w).done = w.done)) :
    Frame k (setWS k sid f) := by
  refine ⟨rfl, ?_, ?_⟩
  · intro s w' hw'
    rcases setWS_cases k sid s f w' hw' with ⟨rfl, w, hw, rfl⟩ | ⟨_, hw⟩
    · refine ⟨w, hw, fun hp => ?_⟩
      have := hf w hw
      exact ⟨this.1.mp hp, this.2 (this.1.mp hp)⟩
    · exact ⟨w', hw, fun hp => ⟨hp, rfl, rfl⟩⟩
  · intro s w hw hp
    by_cases hs : s = sid
    · subst hs; exact ⟨f w, by simp [hw], (hf w hw).1.mpr hp⟩
    · exact ⟨w, by simp [hs, hw], hp⟩

theorem frame_setPoppedWM (k : K) (b : Bool) : Frame k (setPoppedWM k b) := by
  refine ⟨?_, fun s w' hw' => ⟨w', hw', fun hp => ⟨hp, rfl, rfl⟩⟩, fun s w hw hp => ⟨w, hw, hp⟩⟩
  show (k.popped.map _).map _ = _
  cases k.popped <;> rfl

theorem plotInv_frame {k k' : K} (h : PlotInv k) (hf : Frame k k')
    (hpc : k'.pc = k.pc ∨ ∃ s, k.pc = .plotting s ∧ k'.pc = .finished s) : PlotInv k' := by
  have hsid : pcSid k'.pc = pcSid k.pc := by
    rcases hpc with h1 | ⟨s, h1, h2⟩
    · rw [h1]
    · rw [h1, h2]; rfl
  have hpop : ∀ r, k.popped = some r → ∃ r', k'.popped = some r' ∧ r'.sid = r.sid := by
    intro r hr
    have := hf.popped
    rw [hr] at this
    cases hp : k'.popped with
    | none => simp [hp] at this
    | some r' => simp [hp] at this; exact ⟨r', rfl, this⟩
  refine ⟨?_, ?_, ?_, ?_⟩
  · intro s w' hw' hp
    obtain ⟨w, hw, hx⟩ := hf.fwd s w' hw'
    obtain ⟨x1, x2, x3⟩ := hx hp
    obtain ⟨y1, y2, r, y3, y4⟩ := h.plot s w hw x1
    obtain ⟨r', z1, z2⟩ := hpop r y3
    exact ⟨x2.trans y1, hsid.trans y2, r', z1, z2.trans y4⟩
  · intro s hs
    obtain ⟨w, hw, hp⟩ := h.pcw s (hsid ▸ hs)
    obtain ⟨w', hw', hp'⟩ := hf.bwd s w hw hp
    exact ⟨w', hw', hp'⟩
  · intro s w' hpc' hw'
    have hk : k.pc = .plotting s := by
      rcases hpc with h1 | ⟨s0, _, h2⟩
      · rw [← h1]; exact hpc'
      · rw [h2] at hpc'; cases hpc'
    obtain ⟨w0, hw0, hp0⟩ := h.pcw s (by rw [hk]; rfl)
    obtain ⟨w'', hw'', hp''⟩ := hf.bwd s w0 hw0 hp0
    rw [hw'] at hw''; cases hw''
    obtain ⟨w, hw, hx⟩ := hf.fwd s w' hw'
    obtain ⟨_, _, x3⟩ := hx hp''
    rw [x3]; exact h.fresh s w hk hw
  · intro hp
    have hk : k.pc = .popped := by
      rcases hpc with h1 | ⟨s0, _, h2⟩
      · rw [← h1]; exact hp
      · rw [h2] at hp; cases hp
    have := h.pop hk
    cases hr : k.popped with
    | none => simp [hr] at this
    | some r => obtain ⟨r', z1, _⟩ := hpop r hr; simp [z1]

/-! ### API actions -/

theorem cancel_ws_sid {k : K} {sid : Nat} {w : WS} (h : k.ws sid = some w) :
    (cancel k sid).ws sid = some { w with epoch := w.epoch + 1 } := by
  simp [cancel, purge, setWS, h]
@[simp] theorem cancel_popped (k : K) (sid : Nat) : (cancel k sid).popped = k.popped := rfl
@[simp] theorem cancel_list (k : K) (sid : Nat) : (cancel k sid).list = k.list := rfl
@[simp] theorem cancel_pc (k : K) (sid : Nat) : (cancel k sid).pc = k.pc := rfl
@[simp] theorem cancel_quitting (k : K) (sid : Nat) : (cancel k sid).quitting = k.quitting := rfl
@[simp] theorem cancel_panicked (k : K) (sid : Nat) : (cancel k sid).panicked = k.panicked := rfl

theorem frame_cancel (k : K) (sid : Nat) : Frame k (cancel k sid) := by
  have h1 : Frame k (setWS k sid (fun w => { w with epoch := w.epoch + 1 })) :=
    frame_setWS k sid _ (fun w _ => ⟨Iff.rfl, fun _ => ⟨rfl, rfl⟩⟩)
  exact h1.trans (Frame.of_eq rfl rfl)

/-- what an API action leaves of the invariant's ingredients -/
structure ActOK (k k' : K) : Prop where
  i0 : Inv0 k'
  fr : Frame k k'
  pc : k'.pc = k.pc
  qt : k'.quitting = k.quitting

theorem ActOK.refl {k : K} (h : Inv k) : ActOK k k := ⟨h.i0, Frame.refl k, rfl, rfl⟩

theorem popped_of_plotting {k : K} {sid : Nat} {w : WS} (h : Inv k) (hw : k.ws sid = some w)
    (hi : inState w .plotting = true) : ∃ r, k.popped = some r ∧ r.sid = sid := by
  obtain ⟨_, hf, _⟩ := idx_of_inState h.i0 hw hi
  exact (h.pl.plot sid w hw hf).2.2

theorem send_ok {k : K} {sid : Nat} {w : WS} (b : Bool) (h : Inv k) (hw : k.ws sid = some w) :
    ActOK k (send k ⟨sid, b, w.epoch⟩).1 := by
  refine ⟨inv0_send b h.i0 hw, ?_, ?_, ?_⟩ <;>
    (unfold send; split <;> first | rfl | exact Frame.of_eq rfl rfl | exact Frame.refl _)

theorem move_ok {k : K} {sid : Nat} {w : WS} (old new : St) (h : Inv0 k) (hw : k.ws sid = some w)
    (hi : inState w old = true) (ho : old ≠ .plotting) (hn : new ≠ .plotting) :
    Inv0 (setWS k sid (fun w => move w old new)) ∧ Frame k (setWS k sid (fun w => move w old new)) := by
  refine ⟨inv0_move old new h hw hi, frame_setWS k sid _ ?_⟩
  intro w0 hw0
  rw [hw] at hw0; cases hw0
  obtain ⟨_, hf, _⟩ := idx_of_inState h hw hi
  simp [move, hf, ho, hn]

theorem act_ok {k : K} (a : Act) (sid : Nat) (h : Inv k) : ActOK k (act k a sid).1 := by
  cases hfind : k.ws sid with
  | none => simp only [act, find, hfind]; exact ActOK.refl h
  | some w =>
    simp only [act, find, hfind]
    split
    · exact ActOK.refl h
    · have hc := cancel_ws_sid (sid := sid) hfind
      have hic : Inv0 (cancel k sid) := inv0_cancel sid h.i0
      cases a with
      | plot =>
        simp only
        split
        · exact send_ok false h hfind
        · split
          · rename_i hi
            obtain ⟨r, hr, hrs⟩ := popped_of_plotting h hfind hi
            simp only [hr]
            split
            · exact ActOK.refl h
            · exact ⟨inv0_setPoppedWM _ h.i0, frame_setPoppedWM _ _, rfl, rfl⟩
          · exact ActOK.refl h
      | mine =>
        simp only
        split
        · exact send_ok true h hfind
        · split
          · rename_i hi
            obtain ⟨r, hr, hrs⟩ := popped_of_plotting h hfind hi
            simp only [hr]
            split
            · exact ActOK.refl h
            · exact ⟨inv0_setPoppedWM _ h.i0, frame_setPoppedWM _ _, rfl, rfl⟩
          · split
            · rename_i hi
              obtain ⟨a1, a2⟩ := move_ok .ready .mining h.i0 hfind hi (by decide) (by decide)
              exact ⟨a1, a2, rfl, rfl⟩
            · exact ActOK.refl h
      | stop =>
        simp only
        split
        · rename_i hi
          obtain ⟨r, hr, hrs⟩ := popped_of_plotting h hfind hi
          simp only [cancel_popped, hr]
          split
          · exact ⟨hic, frame_cancel k sid, rfl, rfl⟩
          · exact ⟨inv0_setPoppedWM _ hic, (frame_cancel k sid).trans (frame_setPoppedWM _ _), rfl, rfl⟩
        · split
          · rename_i hi
            have hi' : inState { w with epoch := w.epoch + 1 } .mining = true := hi
            obtain ⟨a1, a2⟩ := move_ok .mining .ready hic hc hi' (by decide) (by decide)
            exact ⟨a1, (frame_cancel k sid).trans a2, rfl, rfl⟩
          · exact ⟨hic, frame_cancel k sid, rfl, rfl⟩
      | remove =>
        simp only
        split
        · refine ⟨inv0_unlist (k := cancel k sid) (fun w => { w with inUse := false }) (cancel k sid).deleted hic ?_, ?_, rfl, rfl⟩
          · intro w1 hw1
            exact ⟨(hic.base sid w1 hw1).idx, rfl, Nat.le_refl _⟩
          · refine (frame_cancel k sid).trans (Frame.trans (frame_setWS _ sid _ ?_) (Frame.of_eq rfl rfl))
            intro w1 _; exact ⟨Iff.rfl, fun _ => ⟨rfl, rfl⟩⟩
        · exact ⟨hic, frame_cancel k sid, rfl, rfl⟩
      | delete =>
        simp only
        split
        · rename_i hi
          have hf : w.field ≠ .plotting := by
            intro hp
            rcases Bool.or_eq_true _ _ |>.mp hi with h1 | h1
            · have := (idx_of_inState h.i0 hfind h1).2.1; rw [hp] at this; cases this
            · have := (idx_of_inState h.i0 hfind h1).2.1; rw [hp] at this; cases this
          refine ⟨inv0_unlist (k := cancel k sid) _ _ hic ?_, ?_, rfl, rfl⟩
          · intro w1 hw1
            have hb := (hic.base sid w1 hw1).idx
            refine ⟨?_, rfl, Nat.le_refl _⟩
            simp only [Bool.false_eq_true, if_false]
            rw [hb]; split <;> simp
          · refine (frame_cancel k sid).trans (Frame.trans (frame_setWS _ sid _ ?_) (Frame.of_eq rfl rfl))
            intro w1 hw1
            rw [hc] at hw1; cases hw1
            exact ⟨Iff.rfl, fun hp => absurd hp hf⟩
        · exact ⟨hic, frame_cancel k sid, rfl, rfl⟩
/-! ### every label preserves the invariant -/

/-- `Inv0` looks only at the spaces, the list, the requests and the panic flag -/
theorem inv0_congr {k k' : K} (h : Inv0 k) (h1 : k'.ws = k.ws) (h2 : k'.list = k.list) (h3 : k'.panicked = k.panicked)
    (h4 : k'.chan.length ≤ chanCap)
    (h5 : ∀ r, (r ∈ k'.chan ∨ r ∈ k'.queue ∨ k'.popped = some r) → (r ∈ k.chan ∨ r ∈ k.queue ∨ k.popped = some r)) :
    Inv0 k' := by
  obtain ⟨hb, hl, hn, hc, he⟩ := h
  refine ⟨?_, ?_, h3.trans hn, h4, ?_⟩
  · intro s w hw; rw [h1] at hw
    exact ⟨(hb s w hw).idx, (hb s w hw).use, by rw [h2]; exact (hb s w hw).listed⟩
  · intro s hs; rw [h2] at hs; rw [h1]; exact hl s hs
  · intro r hr w hw; rw [h1] at hw; exact he r (h5 r hr) w hw

def NoPlot (k : K) : Prop := ∀ s w, k.ws s = some w → w.field ≠ .plotting

theorem noPlot_of_pcSid {k : K} (h : PlotInv k) (hp : pcSid k.pc = none) : NoPlot k := by
  intro s w hw hf
  have := (h.plot s w hw hf).2.1
  rw [hp] at this; cases this

theorem plotInv_of_noPlot {k : K} (h : NoPlot k) (hp : pcSid k.pc = none)
    (hpop : k.pc = .popped → k.popped.isSome = true) : PlotInv k := by
  refine ⟨fun s w hw hf => absurd hf (h s w hw), ?_, ?_, hpop⟩
  · intro s hs; rw [hp] at hs; cases hs
  · intro s w hpc; rw [hpc] at hp; cases hp

theorem inv_loopTop {k : K} (h : Inv0 k) (hn : NoPlot k) : Inv (loopTop k) := by
  unfold loopTop
  split
  · exact ⟨inv0_congr h rfl rfl rfl h.cap (fun r hr => hr), plotInv_of_noPlot hn rfl (by intro h; cases h)⟩
  · split
    · refine ⟨inv0_congr h rfl rfl rfl h.cap ?_, plotInv_of_noPlot hn rfl (by intro h; cases h)⟩
      intro r hr
      rcases hr with hr | hr | hr
      · exact Or.inl hr
      · simp [exitNow] at hr
      · simp [exitNow] at hr
    · exact ⟨inv0_congr h rfl rfl rfl h.cap (fun r hr => hr), plotInv_of_noPlot hn rfl (by intro h; cases h)⟩

theorem mem_enqueue {q : List Req} {r x : Req} (h : x ∈ enqueue q r) : x ∈ q ∨ x = r := by
  induction q with
  | nil => simp [enqueue] at h; exact Or.inr h
  | cons y ys ih =>
    simp only [enqueue] at h
    split at h
    · simp only [List.mem_cons] at h ⊢
      rcases h with h | h | h
      · exact Or.inr h
      · exact Or.inl (Or.inl h)
      · exact Or.inl (Or.inr h)
    · simp only [List.mem_cons] at h ⊢
      rcases h with h | h
      · exact Or.inl (Or.inl h)
      · rcases ih h with h | h
        · exact Or.inl (Or.inr h)
        · exact Or.inr h

theorem mem_foldl_enqueue {c q : List Req} {x : Req} (h : x ∈ c.foldl enqueue q) : x ∈ q ∨ x ∈ c := by
  induction c generalizing q with
  | nil => exact Or.inl h
  | cons y ys ih =>
    simp only [List.foldl_cons] at h
    rcases ih h with h | h
    · rcases mem_enqueue h with h | h
      · exact Or.inl h
      · exact Or.inr (by simp [h])
    · exact Or.inr (by simp [h])

theorem micro_inv {k k' : K} {l : Label} (h : Inv k) (hm : micro k l = some k') : Inv k' := by
  unfold micro at hm
  split at hm
  · cases hm
  cases l with
  | api a sid =>
    simp only [Option.some.injEq] at hm
    have ha := act_ok a sid h
    split at hm
    · rename_i hc
      simp only [Bool.and_eq_true, beq_iff_eq] at hc
      subst hm
      refine ⟨inv0_congr ha.i0 rfl rfl rfl ha.i0.cap (fun r hr => hr), ?_⟩
      exact plotInv_frame h.pl (ha.fr.trans (Frame.of_eq rfl rfl)) (Or.inr ⟨sid, hc.2, rfl⟩)
    · subst hm
      exact ⟨ha.i0, plotInv_frame h.pl ha.fr (Or.inl ha.pc)⟩
  | recv =>
    dsimp only at hm
    split at hm
    · rename_i hc
      simp only [Bool.and_eq_true, beq_iff_eq] at hc
      cases hm
      apply inv_loopTop
      · refine inv0_congr h.i0 rfl rfl rfl (by simp) ?_
        intro r hr
        rcases hr with hr | hr | hr
        · simp at hr
        · rcases mem_foldl_enqueue hr with hr | hr
          · exact Or.inr (Or.inl hr)
          · exact Or.inl hr
        · exact Or.inr (Or.inr hr)
      · have hnp : NoPlot k := noPlot_of_pcSid h.pl (by rw [hc.1.1]; rfl)
        exact hnp
    · cases hm
  | pop wm ep =>
    dsimp only at hm
    split at hm
    · rename_i hc
      simp only [beq_iff_eq] at hc
      have hnp : NoPlot k := noPlot_of_pcSid h.pl (by rw [hc]; rfl)
      split at hm
      · cases hm; exact inv_loopTop h.i0 hnp
      · rename_i top rest hq
        split at hm
        · rename_i hmem
          cases hm
          have hmem' : (⟨top.sid, wm, ep⟩ : Req) ∈ k.queue := by simpa using hmem
          refine ⟨inv0_congr h.i0 rfl rfl rfl h.i0.cap ?_, plotInv_of_noPlot hnp rfl (fun _ => rfl)⟩
          intro r hr
          rcases hr with hr | hr | hr
          · exact Or.inl hr
          · exact Or.inr (Or.inl (List.mem_of_mem_erase hr))
          · simp only [Option.some.injEq] at hr; subst hr; exact Or.inr (Or.inl hmem')
        · cases hm
    · cases hm
  | step1 =>
    dsimp only at hm
    split at hm
    · rename_i hc
      simp only [beq_iff_eq] at hc
      have hnp : NoPlot k := noPlot_of_pcSid h.pl (by rw [hc]; rfl)
      have hsome := h.pl.pop hc
      cases hp : k.popped with
      | none => simp [hp] at hsome
      | some r =>
        simp only [hp, find] at hm
        cases hw : k.ws r.sid with
        | none => simp only [hw] at hm; cases hm; exact inv_loopTop h.i0 hnp
        | some w =>
          simp only [hw] at hm
          split at hm
          · cases hm; exact inv_loopTop h.i0 hnp
          · split at hm
            · rename_i hi
              cases hm
              obtain ⟨ha, hf, hx⟩ := idx_of_inState h.i0 hw hi
              have h0 := inv0_move .registered .plotting h.i0 hw hi
              refine ⟨inv0_congr h0 rfl rfl rfl h0.cap (fun r hr => hr), ?_, ?_, ?_, ?_⟩
              · intro s w' hw' hf'
                rcases setWS_cases k r.sid s _ w' hw' with ⟨rfl, w0, hw0, rfl⟩ | ⟨_, hw0⟩
                · rw [hw] at hw0; cases hw0
                  refine ⟨by simp [move, ha], ?_, r, hp, rfl⟩
                  simp only; split <;> rfl
                · exact absurd hf' (hnp s w' hw0)
              · intro s hs
                have : s = r.sid := by
                  simp only at hs; split at hs <;> (simp [pcSid] at hs; exact hs.symm)
                subst this
                exact ⟨move w .registered .plotting, by simp [hw], rfl⟩
              · intro s w' hpc hw'
                simp only at hpc
                split at hpc
                · cases hpc
                · rename_i hd
                  cases hpc
                  simp [hw] at hw'; subst hw'
                  simpa [move] using hd
              · intro hpc; simp only at hpc; split at hpc <;> cases hpc
            · split at hm
              · rename_i hi
                simp only [Bool.and_eq_true] at hi
                cases hm
                obtain ⟨a1, _⟩ := move_ok .ready .mining h.i0 hw hi.1 (by decide) (by decide)
                apply inv_loopTop a1
                intro s w' hw'
                rcases setWS_cases k r.sid s _ w' hw' with ⟨rfl, w0, hw0, rfl⟩ | ⟨_, hw0⟩
                · simp [move]
                · exact hnp s w' hw0
              · cases hm; exact inv_loopTop h.i0 hnp
    · cases hm
  | plotEnds d =>
    dsimp only at hm
    split at hm
    · rename_i sid hc
      cases hm
      obtain ⟨w, hw, hf⟩ := h.pl.pcw sid (by rw [hc]; rfl)
      cases d with
      | false =>
        simp only [Bool.false_eq_true, if_false]
        exact ⟨inv0_congr h.i0 rfl rfl rfl h.i0.cap (fun r hr => hr),
          plotInv_frame h.pl (Frame.of_eq rfl rfl) (Or.inr ⟨sid, hc, rfl⟩)⟩
      | true =>
        simp only [if_true]
        have h0 : Inv0 (setWS k sid (fun w => { w with done := true })) :=
          inv0_setWS _ h.i0 (fun w hw => ⟨(h.i0.base sid w hw).idx, (h.i0.base sid w hw).use, rfl, Nat.le_refl _⟩)
        refine ⟨inv0_congr h0 rfl rfl rfl h0.cap (fun r hr => hr), ?_⟩
        -- not a frame (done changes): directly
        refine ⟨?_, ?_, ?_, ?_⟩
        · intro s w' hw' hf'
          rcases setWS_cases k sid s _ w' hw' with ⟨rfl, w0, hw0, rfl⟩ | ⟨_, hw0⟩
          · obtain ⟨x1, x2, x3⟩ := h.pl.plot _ w0 hw0 hf'
            exact ⟨x1, rfl, x3⟩
          · obtain ⟨x1, x2, x3⟩ := h.pl.plot s w' hw0 hf'
            rw [hc] at x2
            exact ⟨x1, x2, x3⟩
        · intro s hs
          have : s = sid := by dsimp only [pcSid] at hs; cases hs; rfl
          subst this
          exact ⟨{ w with done := true }, by simp [hw], hf⟩
        · intro s w' hpc; cases hpc
        · intro hpc; cases hpc
    · cases hm
  | step3 =>
    dsimp only at hm
    split at hm
    · rename_i sid hc
      cases hm
      obtain ⟨w, hw, hf⟩ := h.pl.pcw sid (by rw [hc]; rfl)
      obtain ⟨ha, _, _⟩ := h.pl.plot sid w hw hf
      have hi : inState w .plotting = true := by
        have := (h.i0.base sid w hw).idx
        simp [ha, hf] at this
        simp [inState, this]
      simp only [step3, find, hw]
      apply inv_loopTop (inv0_move .plotting _ h.i0 hw hi)
      intro s w' hw'
      rcases setWS_cases k sid s _ w' hw' with ⟨rfl, w0, hw0, rfl⟩ | ⟨hne, hw0⟩
      · simp only [move]
        split
        · decide
        · split <;> decide
      · intro hf'
        have := (h.pl.plot s w' hw0 hf').2.1
        rw [hc] at this
        simp [pcSid] at this
        exact hne this.symm
    · cases hm
  | start =>
    dsimp only at hm
    split at hm
    · rename_i hc
      simp only [beq_iff_eq] at hc
      cases hm
      have hnp : NoPlot k := noPlot_of_pcSid h.pl (by rw [hc]; rfl)
      exact inv_loopTop (inv0_congr h.i0 rfl rfl rfl h.i0.cap (fun r hr => hr)) hnp
    · cases hm
  | quit =>
    dsimp only at hm
    split at hm
    · split at hm
      · rename_i sid hc
        cases hm
        exact ⟨inv0_congr h.i0 rfl rfl rfl h.i0.cap (fun r hr => hr),
          plotInv_frame h.pl (Frame.of_eq rfl rfl) (Or.inr ⟨sid, hc, rfl⟩)⟩
      · cases hm
        exact ⟨inv0_congr h.i0 rfl rfl rfl h.i0.cap (fun r hr => hr),
          plotInv_frame h.pl (Frame.of_eq rfl rfl) (Or.inl rfl)⟩
    · cases hm
  | exit d =>
    dsimp only at hm
    split at hm
    · rename_i hc
      simp only [Bool.and_eq_true, beq_iff_eq] at hc
      cases hm
      have hnp : NoPlot k := noPlot_of_pcSid h.pl (by rw [hc.1.1]; rfl)
      refine ⟨inv0_congr h.i0 rfl rfl rfl ?_ ?_, plotInv_of_noPlot hnp rfl (by intro h; cases h)⟩
      · simp only [exitNow]; split
        · simp
        · exact h.i0.cap
      · intro r hr
        simp only [exitNow] at hr
        rcases hr with hr | hr | hr
        · split at hr
          · simp at hr
          · exact Or.inl hr
        · simp at hr
        · simp at hr
    · cases hm

theorem run_inv {k k' : K} (ls : List Label) (h : Inv k) (hr : run k ls = some k') : Inv k' := by
  induction ls generalizing k with
  | nil => simp [run] at hr; subst hr; exact h
  | cons l ls ih =>
    simp only [run] at hr
    cases hm : micro k l with
    | none => simp [hm] at hr
    | some k1 => simp [hm] at hr; exact ih (micro_inv h hm) hr

/-- every state reachable from the initial configuration with `n` registered spaces -/
theorem reachable_inv {n : Nat} {k : K} (ls : List Label) (hr : run (initK n) ls = some k) : Inv k :=
  run_inv ls (inv_init n) hr

end MassVerif.Keeper
