/-
Helper lemmas for the wire codec (C16): hex and big-integer round trips.
-/
import MassVerif.Model.Codec

namespace MassVerif.Codec

set_option maxRecDepth 4000 in
theorem hexVal_hexDigit : ∀ n, n < 16 → hexVal (hexDigit n) = some n := by decide

theorem hexDec_hexEnc (b : Bytes) (hb : IsBytes b) : hexDec (hexEnc b) = some b := by
  induction b with
  | nil => rfl
  | cons x r ih =>
    have hx : x < 256 := hb x (by simp)
    have hr : IsBytes r := fun y hy => hb y (List.mem_cons_of_mem _ hy)
    simp only [hexEnc, hexDec]
    rw [hexVal_hexDigit (x / 16) (by omega), hexVal_hexDigit (x % 16) (by omega), ih hr]
    simp only
    congr 2
    omega

theorem hexEnc_length (b : Bytes) : (hexEnc b).length = 2 * b.length := by
  induction b with
  | nil => rfl
  | cons x r ih => simp only [hexEnc, List.length_cons, ih]; omega

theorem hashParse_hexEnc (b : Bytes) (hb : IsBytes b) (hl : b.length = 32) :
    hashParse (hexEnc b) = some b := by
  unfold hashParse
  rw [hexEnc_length, hl]
  simp [hexDec_hexEnc b hb]

theorem bytesToNat_append (a : Bytes) (x : Nat) : bytesToNat (a ++ [x]) = bytesToNat a * 256 + x := by
  simp [bytesToNat, List.foldl_append]

theorem bytesToNat_natToBytes (n : Nat) : bytesToNat (natToBytes n) = n := by
  induction n using Nat.strongRecOn with
  | _ n ih =>
    rw [natToBytes]
    by_cases h : n = 0
    · simp [h, bytesToNat]
    · simp only [h, dite_false]
      rw [bytesToNat_append, ih (n / 256) (by omega)]
      omega

theorem natToBytes_isBytes (n : Nat) : IsBytes (natToBytes n) := by
  induction n using Nat.strongRecOn with
  | _ n ih =>
    rw [natToBytes]
    by_cases h : n = 0
    · simp [h, IsBytes]
    · simp only [h, dite_false]
      intro x hx
      simp only [List.mem_append, List.mem_singleton] at hx
      rcases hx with hx | rfl
      · exact ih (n / 256) (by omega) x hx
      · omega

end MassVerif.Codec
