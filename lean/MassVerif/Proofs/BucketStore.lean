/-
Helper lemmas for the bucket-store model (C19).
-/
import MassVerif.Model.BucketStore

namespace MassVerif.BucketStore

/-! ### separators and numerals -/

theorem sep_not_mem_numeral (d : Nat) : sep ∉ numeral d := by
  unfold sep numeral; exact Nat.underscore_not_in_toDigits

theorem numeral_inj {a b : Nat} (h : numeral a = numeral b) : a = b := by
  have ha := @Nat.ofDigitChars_ten_toDigits a
  have hb := @Nat.ofDigitChars_ten_toDigits b
  unfold numeral at h
  rw [h] at ha
  omega

theorem numeral_ne_nil (d : Nat) : numeral d ≠ [] := Nat.toDigits_ne_nil

theorem numeral_head_isDigit (d : Nat) : ∃ c r, numeral d = c :: r ∧ c.isDigit = true := by
  cases h : numeral d with
  | nil => exact absurd h (numeral_ne_nil d)
  | cons c r =>
    refine ⟨c, r, rfl, ?_⟩
    apply Nat.isDigit_of_mem_toDigits (b := 10) (n := d) (by omega) (by omega)
    unfold numeral at h; rw [h]; simp

/-- Unique split at the first separator. -/
theorem append_sep_inj {a a' r r' : Bytes} (ha : sep ∉ a) (ha' : sep ∉ a')
    (h : a ++ sep :: r = a' ++ sep :: r') : a = a' ∧ r = r' := by
  induction a generalizing a' with
  | nil =>
    cases a' with
    | nil => simpa using h
    | cons c cs =>
      simp at h
      exact absurd h.1.symm (by intro hc; exact ha' (by simp [hc]))
  | cons c cs ih =>
    cases a' with
    | nil =>
      simp at h
      exact absurd h.1 (by intro hc; exact ha (by simp [hc]))
    | cons c' cs' =>
      simp at h
      obtain ⟨h1, h2⟩ := h
      have hcs : sep ∉ cs := fun hm => ha (List.mem_cons_of_mem _ hm)
      have hcs' : sep ∉ cs' := fun hm => ha' (List.mem_cons_of_mem _ hm)
      obtain ⟨e1, e2⟩ := ih hcs hcs' h2
      exact ⟨by rw [h1, e1], e2⟩

/-- names that may appear in a path: no separator inside -/
def SepFree (names : List Bytes) : Prop := ∀ n ∈ names, sep ∉ n

def tailEnc (names : List Bytes) (k : Bytes) : Bytes :=
  (names.map (sep :: ·)).flatten ++ sep :: k

theorem kvKey_eq (names : List Bytes) (k : Bytes) :
    kvKey names k = numeral names.length ++ tailEnc names k := by
  simp [kvKey, innerKey, encPath, tailEnc]

theorem tailEnc_cons (n : Bytes) (ns : List Bytes) (k : Bytes) :
    tailEnc (n :: ns) k = sep :: (n ++ tailEnc ns k) := by
  simp [tailEnc]

theorem tailEnc_inj {ns ns' : List Bytes} {k k' : Bytes} (hl : ns.length = ns'.length)
    (hs : SepFree ns) (hs' : SepFree ns') (h : tailEnc ns k = tailEnc ns' k') :
    ns = ns' ∧ k = k' := by
  induction ns generalizing ns' with
  | nil =>
    cases ns' with
    | nil => simpa [tailEnc] using h
    | cons _ _ => simp at hl
  | cons n ns ih =>
    cases ns' with
    | nil => simp at hl
    | cons n' ns' =>
      rw [tailEnc_cons, tailEnc_cons] at h
      simp only [List.cons.injEq, true_and] at h
      have hn : sep ∉ n := hs n (by simp)
      have hn' : sep ∉ n' := hs' n' (by simp)
      have hsplit : n ++ sep :: ((ns.map (sep :: ·)).flatten.drop 0 ++ []) = n ++ sep :: (ns.map (sep :: ·)).flatten := by simp
      -- expose the separator that starts `tailEnc ns k`
      have e1 : tailEnc ns k = sep :: (tailEnc ns k).tail := by
        cases ns <;> simp [tailEnc]
      have e2 : tailEnc ns' k' = sep :: (tailEnc ns' k').tail := by
        cases ns' <;> simp [tailEnc]
      rw [e1, e2] at h
      obtain ⟨hnn, htl⟩ := append_sep_inj hn hn' h
      have hrest : tailEnc ns k = tailEnc ns' k' := by rw [e1, e2, htl]
      have := ih (by simpa using hl) (fun m hm => hs m (List.mem_cons_of_mem _ hm))
        (fun m hm => hs' m (List.mem_cons_of_mem _ hm)) hrest
      exact ⟨by rw [hnn, this.1], this.2⟩

theorem tailEnc_head (ns : List Bytes) (k : Bytes) : ∃ r, tailEnc ns k = sep :: r := by
  cases ns <;> simp [tailEnc]

/-- **Unique decodability** of the flat key layout. -/
theorem kvKey_inj {ns ns' : List Bytes} {k k' : Bytes} (hs : SepFree ns) (hs' : SepFree ns')
    (h : kvKey ns k = kvKey ns' k') : ns = ns' ∧ k = k' := by
  rw [kvKey_eq, kvKey_eq] at h
  obtain ⟨r, hr⟩ := tailEnc_head ns k
  obtain ⟨r', hr'⟩ := tailEnc_head ns' k'
  rw [hr, hr'] at h
  obtain ⟨hnum, hrr⟩ := append_sep_inj (sep_not_mem_numeral _) (sep_not_mem_numeral _) h
  have hl := numeral_inj hnum
  exact tailEnc_inj hl hs hs' (by rw [hr, hr', hrr])

theorem encPath_inj {ns ns' : List Bytes} (hs : SepFree ns) (hs' : SepFree ns')
    (h : encPath ns = encPath ns') : ns = ns' := by
  have : kvKey ns [] = kvKey ns' [] := by simp [kvKey, innerKey, h]
  exact (kvKey_inj hs hs' this).1

theorem idxKey_inj {ns ns' : List Bytes} (hs : SepFree ns) (hs' : SepFree ns')
    (h : idxKey ns = idxKey ns') : ns = ns' := by
  simp [idxKey, indexKey] at h
  exact encPath_inj hs hs' h

/-- index keys and entry keys never collide: the first byte is `b` vs a digit -/
theorem kvKey_ne_idxKey (ns ns' : List Bytes) (k : Bytes) : kvKey ns k ≠ idxKey ns' := by
  obtain ⟨c, r, hc, hd⟩ := numeral_head_isDigit ns.length
  intro h
  simp [kvKey, innerKey, encPath, idxKey, indexKey, hc] at h
  have : c = idxTag := h.1
  rw [this] at hd
  simp [idxTag, Char.isDigit] at hd

/-! ### prefixes -/

theorem isPrefixOf_iff {a b : Bytes} : a.isPrefixOf b = true ↔ ∃ s, b = a ++ s := by
  rw [List.isPrefixOf_iff_prefix]
  constructor
  · rintro ⟨s, hs⟩; exact ⟨s, hs.symm⟩
  · rintro ⟨s, hs⟩; exact ⟨s, hs.symm⟩

/-- A flat entry key lies under the scan prefix of bucket `ns` iff it is an
    entry key of exactly that bucket (for keys of well-formed buckets). -/
theorem kvKey_prefix_iff {ns ns' : List Bytes} {pre k' : Bytes} (hs : SepFree ns)
    (hs' : SepFree ns') :
    (kvKey ns pre).isPrefixOf (kvKey ns' k') = true ↔ ns = ns' ∧ ∃ s, k' = pre ++ s := by
  rw [isPrefixOf_iff]
  constructor
  · rintro ⟨s, h⟩
    have : kvKey ns' k' = kvKey ns (pre ++ s) := by
      rw [h]; simp [kvKey, innerKey]
    obtain ⟨e1, e2⟩ := kvKey_inj hs' hs this
    exact ⟨e1.symm, s, e2⟩
  · rintro ⟨rfl, s, rfl⟩
    exact ⟨s, by simp [kvKey, innerKey]⟩

theorem kvKey_prefix_idxKey {ns ns' : List Bytes} {pre : Bytes} :
    (kvKey ns pre).isPrefixOf (idxKey ns') = false := by
  cases h : (kvKey ns pre).isPrefixOf (idxKey ns') with
  | false => rfl
  | true =>
    rw [isPrefixOf_iff] at h
    obtain ⟨s, hs⟩ := h
    have := kvKey_ne_idxKey ns ns' (pre ++ s)
    exact absurd (by rw [hs]; simp [kvKey, innerKey]) this

/-! ### the flat map -/

theorem Flat.get_filter (f : Flat) (p : Bytes → Bool) (k : Bytes) :
    Flat.get (f.filter (fun e => p e.1)) k = if p k then Flat.get f k else none := by
  induction f with
  | nil => simp [Flat.get]
  | cons e r ih =>
    obtain ⟨k', v⟩ := e
    by_cases hp : p k' = true
    · simp only [List.filter_cons, hp, if_true, Flat.get]
      by_cases hk : k' = k
      · subst hk; simp [hp]
      · simp [hk, ih]
    · simp only [List.filter_cons, hp, Flat.get]
      by_cases hk : k' = k
      · subst hk; simp [hp, ih]
      · simp [hk, ih]

theorem Flat.get_del (f : Flat) (k k' : Bytes) :
    (f.del k).get k' = if k = k' then none else f.get k' := by
  have := Flat.get_filter f (fun x => !(x == k)) k'
  unfold Flat.del
  rw [this]
  by_cases h : k = k'
  · subst h; simp
  · have : ¬ k' = k := fun e => h e.symm
    simp [h, this]

theorem Flat.get_put (f : Flat) (k v k' : Bytes) :
    (f.put k v).get k' = if k = k' then some v else f.get k' := by
  unfold Flat.put
  by_cases h : k = k'
  · subst h; simp [Flat.get]
  · simp [Flat.get, h, Flat.get_del]

theorem Flat.get_delPrefix (f : Flat) (pre k : Bytes) :
    (f.delPrefix pre).get k = if pre.isPrefixOf k then none else f.get k := by
  have := Flat.get_filter f (fun x => !pre.isPrefixOf x) k
  unfold Flat.delPrefix
  rw [this]
  cases pre.isPrefixOf k <;> simp

theorem Flat.get_delAll (f : Flat) (ks : List Bytes) (k : Bytes) :
    (f.delAll ks).get k = if ks.contains k then none else f.get k := by
  have := Flat.get_filter f (fun x => !ks.contains x) k
  unfold Flat.delAll
  rw [this]
  cases ks.contains k <;> simp

/-- keys of a flat store are unique when every update goes through put/del -/
def Flat.NodupKeys (f : Flat) : Prop := (f.map (·.1)).Nodup

theorem Flat.get_of_mem {f : Flat} (hn : f.NodupKeys) {k v : Bytes} (h : (k, v) ∈ f) :
    f.get k = some v := by
  induction f with
  | nil => simp at h
  | cons e r ih =>
    obtain ⟨k', v'⟩ := e
    simp only [Flat.NodupKeys, List.map_cons, List.nodup_cons] at hn
    simp only [List.mem_cons, Prod.mk.injEq] at h
    rcases h with ⟨rfl, rfl⟩ | h
    · simp [Flat.get]
    · have hne : k' ≠ k := by
        intro e; subst e
        exact hn.1 (List.mem_map.mpr ⟨(k', v), h, rfl⟩)
      simp [Flat.get, hne, ih hn.2 h]

theorem Flat.mem_of_get {f : Flat} {k v : Bytes} (h : f.get k = some v) : (k, v) ∈ f := by
  induction f with
  | nil => simp [Flat.get] at h
  | cons e r ih =>
    obtain ⟨k', v'⟩ := e
    by_cases hk : k' = k
    · subst hk; simp [Flat.get] at h; simp [h]
    · simp [Flat.get, hk] at h; exact List.mem_cons_of_mem _ (ih h)

theorem Flat.nodup_filter {f : Flat} (hn : f.NodupKeys) (p : Bytes × Bytes → Bool) :
    Flat.NodupKeys (f.filter p) := by
  unfold Flat.NodupKeys at *
  exact List.Nodup.sublist (List.Sublist.map _ List.filter_sublist) hn

theorem Flat.nodup_del {f : Flat} (hn : f.NodupKeys) (k : Bytes) : (f.del k).NodupKeys :=
  Flat.nodup_filter hn _

theorem Flat.nodup_put {f : Flat} (hn : f.NodupKeys) (k v : Bytes) : (f.put k v).NodupKeys := by
  unfold Flat.put Flat.NodupKeys
  simp only [List.map_cons, List.nodup_cons]
  refine ⟨?_, Flat.nodup_del hn k⟩
  intro hm
  obtain ⟨e, he, hk⟩ := List.mem_map.mp hm
  unfold Flat.del at he
  simp at he
  exact he.2 hk

/-! ### handles of well-formed buckets -/

theorem join_cons_flatten (a : Bytes) (l : List Bytes) :
    join (a :: l) = a ++ (l.map (sep :: ·)).flatten := by
  induction l generalizing a with
  | nil => simp [join]
  | cons b l ih =>
    simp only [join, List.map_cons, List.flatten_cons]
    rw [ih b]
    simp

theorem encPath_eq_join (ns : List Bytes) : encPath ns = join (numeral ns.length :: ns) := by
  rw [join_cons_flatten]; rfl

theorem split_ne_nil (s : Bytes) : split s ≠ [] := by
  induction s with
  | nil => simp [split]
  | cons c cs ih =>
    simp only [split]
    split
    · simp
    · split <;> simp

theorem split_sepFree {a : Bytes} (h : sep ∉ a) : split a = [a] := by
  induction a with
  | nil => simp [split]
  | cons c cs ih =>
    have hc : c ≠ sep := fun e => h (by simp [e])
    have hcs : sep ∉ cs := fun hm => h (List.mem_cons_of_mem _ hm)
    simp [split, hc, ih hcs]

theorem split_append_sep {a : Bytes} (h : sep ∉ a) (r : Bytes) :
    split (a ++ sep :: r) = a :: split r := by
  induction a with
  | nil => simp [split]
  | cons c cs ih =>
    have hc : c ≠ sep := fun e => h (by simp [e])
    have hcs : sep ∉ cs := fun hm => h (List.mem_cons_of_mem _ hm)
    simp [split, hc, ih hcs]

theorem split_join {l : List Bytes} (hne : l ≠ []) (hs : SepFree l) : split (join l) = l := by
  induction l with
  | nil => exact absurd rfl hne
  | cons a l ih =>
    have ha : sep ∉ a := hs a (by simp)
    cases l with
    | nil => simp [join, split_sepFree ha]
    | cons b l =>
      have : join (a :: b :: l) = a ++ sep :: join (b :: l) := rfl
      rw [this, split_append_sep ha]
      rw [ih (by simp) (fun m hm => hs m (List.mem_cons_of_mem _ hm))]

theorem sepFree_path {ns : List Bytes} (hs : SepFree ns) : SepFree (numeral ns.length :: ns) := by
  intro m hm
  simp only [List.mem_cons] at hm
  rcases hm with rfl | hm
  · exact sep_not_mem_numeral _
  · exact hs m hm

/-- the canonical handle of the bucket reached through `ns` -/
def handleOf (ns : List Bytes) : Handle := { path := encPath ns, depth := ns.length }

theorem validName_sepFree {n : Bytes} (h : validName n = true) : sep ∉ n := by
  simp [validName] at h
  exact h.2

theorem split_encPath {ns : List Bytes} (hs : SepFree ns) :
    split (encPath ns) = numeral ns.length :: ns := by
  rw [encPath_eq_join, split_join (by simp) (sepFree_path hs)]

theorem subBucket_handleOf {ns : List Bytes} (hne : ns ≠ []) (hs : SepFree ns) {name : Bytes}
    (hv : validName name = true) :
    subBucket (handleOf ns) name = .ok (handleOf (ns ++ [name])) := by
  unfold subBucket handleOf
  simp only [hv, Bool.not_true, Bool.false_eq_true, if_false]
  rw [split_encPath hs]
  have : ¬ (numeral ns.length :: ns).length < 2 := by
    cases ns with
    | nil => exact absurd rfl hne
    | cons _ _ => simp
  simp only [this, if_false, List.tail_cons]
  rw [encPath_eq_join]
  simp

theorem subBucket_invalid (h : Handle) {name : Bytes} (hv : validName name = false) :
    subBucket h name = .error .invalidBucketName := by
  simp [subBucket, hv]

theorem topHandle_eq {name : Bytes} : topHandle name = handleOf [name] := by
  unfold topHandle handleOf
  rw [encPath_eq_join]
  rfl

end MassVerif.BucketStore
