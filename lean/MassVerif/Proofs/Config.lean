/-
Helper lemmas about the capacity-configuration model (C15).
-/
import MassVerif.Model.Config

namespace MassVerif.Config

theorem size_nonneg (w : WS) : 0 ≤ w.size := by
  unfold WS.size; exact Int.natCast_nonneg _

@[simp] theorem total_nil : total [] = 0 := rfl
@[simp] theorem total_cons (w : WS) (l : List WS) : total (w :: l) = w.size + total l := by
  simp [total]
@[simp] theorem total_append (a b : List WS) : total (a ++ b) = total a + total b := by
  induction a with
  | nil => simp
  | cons w r ih => simp [ih]; omega

theorem total_nonneg (l : List WS) : 0 ≤ total l := by
  induction l with
  | nil => simp
  | cons w r ih => have := size_nonneg w; simp; omega

/-! ### the fill pass -/

theorem fill_cur (l : List WS) (cur t : Int) : (fill l cur t).2 = cur + total (fill l cur t).1 := by
  induction l generalizing cur with
  | nil => simp [fill]
  | cons w r ih =>
    unfold fill
    split
    · exact ih cur
    · simp only [total_cons]; rw [ih]; omega

theorem fill_le (l : List WS) (cur t : Int) (h : cur ≤ t) : (fill l cur t).2 ≤ t := by
  induction l generalizing cur with
  | nil => simpa [fill]
  | cons w r ih =>
    unfold fill
    split
    · exact ih cur h
    · exact ih _ (by omega)

theorem fill_mono (l : List WS) (cur t : Int) : cur ≤ (fill l cur t).2 := by
  rw [fill_cur]; have := total_nonneg (fill l cur t).1; omega

theorem fill_sublist (l : List WS) (cur t : Int) : (fill l cur t).1.Sublist l := by
  induction l generalizing cur with
  | nil => simp [fill]
  | cons w r ih =>
    unfold fill
    split
    · exact (ih cur).cons w
    · exact (ih _).cons_cons w

theorem fill_mem (l : List WS) (cur t : Int) {w : WS} (h : w ∈ (fill l cur t).1) : w ∈ l :=
  (fill_sublist l cur t).subset h

/-- a visited space that was not taken did not fit, neither at its turn nor at the end of the pass -/
theorem fill_skipped (l : List WS) (cur t : Int) {w : WS} (hw : w ∈ l) :
    w ∈ (fill l cur t).1 ∨ (fill l cur t).2 + w.size > t := by
  induction l generalizing cur with
  | nil => cases hw
  | cons x r ih =>
    unfold fill
    rcases List.mem_cons.1 hw with rfl | hr
    · split
      · right; have := fill_mono r cur t; omega
      · left; simp
    · split
      · exact ih cur hr
      · rcases ih (cur + x.size) hr with h | h
        · left; simp [h]
        · right; exact h

/-! ### the creation pass -/

theorem genLoop_spec (sz cur t : Int) (hsz : 0 < sz) (h : cur ≤ t) :
    cur + (genLoop sz cur t : Int) * sz ≤ t ∧ t - (cur + (genLoop sz cur t : Int) * sz) < sz := by
  fun_induction genLoop sz cur t with
  | case1 cur hc ih =>
    have := ih (by omega)
    have e : ((genLoop sz (cur + sz) t + 1 : Nat) : Int) * sz = (genLoop sz (cur + sz) t : Int) * sz + sz := by
      rw [Int.natCast_add, Int.add_mul]; simp
    rw [e]; omega
  | case2 cur hc =>
    simp only [Int.natCast_zero, Int.zero_mul, Int.add_zero]
    constructor
    · exact h
    · have : ¬ (sz ≤ t - cur) := fun h' => hc ⟨hsz, h'⟩
      omega

theorem genLoop_pos_fits (sz cur t : Int) (h : 0 < genLoop sz cur t) : 0 < sz ∧ sz ≤ t - cur := by
  unfold genLoop at h
  split at h
  · assumption
  · omega

def blTotal (l : List Nat) : Int := (l.map (fun b => (plotSize b : Int))).sum

@[simp] theorem blTotal_nil : blTotal [] = 0 := rfl
@[simp] theorem blTotal_cons (b : Nat) (l : List Nat) : blTotal (b :: l) = plotSize b + blTotal l := by
  simp [blTotal]
theorem blTotal_append (a b : List Nat) : blTotal (a ++ b) = blTotal a + blTotal b := by
  induction a with
  | nil => simp
  | cons w r ih => simp [ih]; omega
theorem blTotal_replicate (n b : Nat) : blTotal (List.replicate n b) = (n : Int) * plotSize b := by
  induction n with
  | zero => simp
  | succ n ih =>
    rw [List.replicate_succ, blTotal_cons, ih, Int.natCast_add, Int.add_mul]; simp; omega
theorem blTotal_nonneg (l : List Nat) : 0 ≤ blTotal l := by
  induction l with
  | nil => simp
  | cons b r ih => have : (0 : Int) ≤ plotSize b := Int.natCast_nonneg _; simp; omega

theorem genAll_cur (bls : List Nat) (cur t : Int) : (genAll bls cur t).2 = cur + blTotal (genAll bls cur t).1 := by
  induction bls generalizing cur with
  | nil => simp [genAll]
  | cons b r ih =>
    simp only [genAll]
    rw [ih, blTotal_append, blTotal_replicate]; omega

theorem genAll_le (bls : List Nat) (cur t : Int) (h : cur ≤ t) : (genAll bls cur t).2 ≤ t := by
  induction bls generalizing cur with
  | nil => simpa [genAll]
  | cons b r ih =>
    simp only [genAll]
    apply ih
    by_cases hb : (0 : Int) < plotSize b
    · exact (genLoop_spec _ cur t hb h).1
    · have : genLoop (plotSize b) cur t = 0 := by
        unfold genLoop; rw [if_neg]; intro hh; exact hb hh.1
      simp [this, h]

theorem genAll_mono (bls : List Nat) (cur t : Int) : cur ≤ (genAll bls cur t).2 := by
  rw [genAll_cur]; have := blTotal_nonneg (genAll bls cur t).1; omega

/-- after the creation pass less than every usable plot size is missing -/
theorem genAll_gap (bls : List Nat) (cur t : Int) (h : cur ≤ t) {b : Nat} (hb : b ∈ bls) (hpos : (0 : Int) < plotSize b) :
    t - (genAll bls cur t).2 < plotSize b := by
  induction bls generalizing cur with
  | nil => cases hb
  | cons x r ih =>
    simp only [genAll]
    have hcur' : cur + (genLoop (plotSize x) cur t : Int) * plotSize x ≤ t := by
      by_cases hx : (0 : Int) < plotSize x
      · exact (genLoop_spec _ cur t hx h).1
      · have : genLoop (plotSize x) cur t = 0 := by
          unfold genLoop; rw [if_neg]; intro hh; exact hx hh.1
        simp [this, h]
    rcases List.mem_cons.1 hb with rfl | hr
    · have := (genLoop_spec _ cur t hpos h).2
      have := genAll_mono r (cur + (genLoop (plotSize b) cur t : Int) * plotSize b) t
      omega
    · exact ih _ hcur' hr

/-- a space is created only when it fits into what is still missing at the start of the pass -/
theorem genAll_fits (bls : List Nat) (cur t : Int) {b : Nat} (hb : b ∈ (genAll bls cur t).1) :
    b ∈ bls ∧ (plotSize b : Int) ≤ t - cur := by
  induction bls generalizing cur with
  | nil => simp [genAll] at hb
  | cons x r ih =>
    simp only [genAll, List.mem_append] at hb
    rcases hb with hb | hb
    · have hx := List.eq_of_mem_replicate hb
      subst hx
      have hn : 0 < genLoop (plotSize b) cur t := by
        cases hg : genLoop (plotSize b) cur t with
        | zero => simp [hg] at hb
        | succ n => omega
      exact ⟨by simp, (genLoop_pos_fits _ _ _ hn).2⟩
    · have := ih _ hb
      refine ⟨List.mem_cons_of_mem _ this.1, ?_⟩
      have hnn : (0 : Int) ≤ (genLoop (plotSize x) cur t : Int) * plotSize x :=
        Int.mul_nonneg (Int.natCast_nonneg _) (Int.natCast_nonneg _)
      omega

/-! ### new spaces -/

theorem total_mkNew (dir : Nat) (bls : List Nat) (o : Nat) : total (mkNew dir bls o) = blTotal bls := by
  induction bls generalizing o with
  | nil => simp [mkNew]
  | cons b r ih => simp [mkNew, ih, WS.size]

theorem mem_mkNew {dir : Nat} {bls : List Nat} {o : Nat} {w : WS} (h : w ∈ mkNew dir bls o) :
    w.dir = dir ∧ w.bl ∈ bls ∧ o ≤ w.ord ∧ w.ord < o + bls.length ∧ w.plotted = false := by
  induction bls generalizing o with
  | nil => simp [mkNew] at h
  | cons b r ih =>
    simp only [mkNew, List.mem_cons] at h
    rcases h with rfl | h
    · simp
    · have := ih h
      simp only [List.mem_cons, List.length_cons]
      refine ⟨this.1, Or.inr this.2.1, by omega, by omega, this.2.2.2.2⟩

@[simp] theorem length_mkNew (dir : Nat) (bls : List Nat) (o : Nat) : (mkNew dir bls o).length = bls.length := by
  induction bls generalizing o with
  | nil => simp [mkNew]
  | cons b r ih => simp [mkNew, ih]

/-! ### sorting and the visiting order -/

theorem mem_insertOrd {w x : WS} {l : List WS} : x ∈ insertOrd w l ↔ x = w ∨ x ∈ l := by
  induction l with
  | nil => simp [insertOrd]
  | cons y r ih =>
    unfold insertOrd
    split
    · simp
    · simp only [List.mem_cons, ih]
      constructor
      · rintro (h | h | h) <;> simp [h]
      · rintro (h | h | h) <;> simp [h]

theorem mem_sortOrd {x : WS} {l : List WS} : x ∈ sortOrd l ↔ x ∈ l := by
  induction l with
  | nil => simp [sortOrd]
  | cons y r ih => simp [sortOrd, mem_insertOrd, ih]

theorem mem_candidates {x : WS} {l : List WS} : x ∈ candidates l ↔ x ∈ l ∧ x.bl ∈ blDesc := by
  unfold candidates
  simp only [List.mem_flatMap, List.mem_filter, mem_sortOrd, beq_iff_eq]
  constructor
  · rintro ⟨b, hb, hx, rfl⟩; exact ⟨hx, hb⟩
  · rintro ⟨hx, hb⟩; exact ⟨x.bl, hb, hx, rfl⟩

/-! ### one size request -/

theorem minSize_pos : 0 < minSize := by decide
theorem minBl_mem : Facts.minValidDefaultBitLength ∈ blDesc := by decide
theorem minSize_eq : minSize = plotSize Facts.minValidDefaultBitLength := rfl

theorem checkDisk_none {r : Int} {free : Nat} (h : checkDisk r free = none) : 0 ≤ r ∧ r < free := by
  unfold checkDisk at h
  split at h
  · cases h
  · split at h
    · cases h
    · omega

/-- what a successful size request returns (`scope` = all spaces, or the spaces of one directory) -/
theorem sizeRequest_ok {k k' : K} {scope : WS → Bool} {dir : Nat} {t : Int} {sel new : List WS}
    (h : k.sizeRequest scope dir t = (k', .ok (sel, new))) (ht : 0 ≤ t) :
    total sel + total new ≤ t ∧ t - (total sel + total new) < minSize ∧
    (∀ w ∈ sel, w ∈ k.index ∧ scope w = true) ∧
    (∀ w ∈ new, w.dir = dir ∧ k.nextOrd ≤ w.ord ∧ w.bl ∈ blDesc ∧ w.plotted = false) ∧
    k' = k.addNew new ∧
    (new ≠ [] → total new < (k.freeOf dir : Int)) ∧
    (∀ w ∈ k.index, scope w = true → w.bl ∈ blDesc → w ∉ sel →
      t - total sel < w.size ∧ ∀ n ∈ new, n.size < w.size) := by
  unfold K.sizeRequest at h
  have hcur := fill_cur (candidates (k.index.filter scope)) 0 t
  have hle := fill_le (candidates (k.index.filter scope)) 0 t ht
  have hsel : ∀ w ∈ (fill (candidates (k.index.filter scope)) 0 t).1, w ∈ k.index ∧ scope w = true := by
    intro w hw
    have := (mem_candidates.1 (fill_mem _ _ _ hw)).1
    simpa [List.mem_filter] using this
  have hskip : ∀ w ∈ k.index, scope w = true → w.bl ∈ blDesc → w ∉ (fill (candidates (k.index.filter scope)) 0 t).1 →
      t - total (fill (candidates (k.index.filter scope)) 0 t).1 < w.size := by
    intro w hw hs hb hn
    have hc : w ∈ candidates (k.index.filter scope) := mem_candidates.2 ⟨List.mem_filter.2 ⟨hw, hs⟩, hb⟩
    rcases fill_skipped _ 0 t hc with h1 | h1
    · exact absurd h1 hn
    · omega
  simp only at h
  split at h
  · -- the indexed spaces meet the target
    rename_i hfin
    simp only [Prod.mk.injEq, Except.ok.injEq] at h
    obtain ⟨rfl, rfl, rfl⟩ := h
    have hgap : t - (fill (candidates (k.index.filter scope)) 0 t).2 < minSize := by
      unfold fillFinished at hfin
      have := minSize_pos
      rcases Bool.or_eq_true_iff.1 hfin with h1 | h1
      · have : (fill (candidates (k.index.filter scope)) 0 t).2 = t := by simpa using h1
        omega
      · simpa using h1
    refine ⟨by simp; omega, by simp; omega, hsel, by simp, by simp [K.addNew], by simp, ?_⟩
    intro w hw hs hb hn
    exact ⟨hskip w hw hs hb hn, by simp⟩
  · split at h
    · simp at h
    · split at h
      · simp at h
      · rename_i hdisk
        simp only [Prod.mk.injEq, Except.ok.injEq] at h
        obtain ⟨rfl, rfl, rfl⟩ := h
        have hd := checkDisk_none hdisk
        have hg := genAll_cur blDesc (fill (candidates (k.index.filter scope)) 0 t).2 t
        have hgle := genAll_le blDesc _ t hle
        have hgap := genAll_gap blDesc _ t hle minBl_mem (by decide)
        have hmono := genAll_mono blDesc (fill (candidates (k.index.filter scope)) 0 t).2 t
        rw [← minSize_eq] at hgap
        refine ⟨by rw [total_mkNew]; omega, by rw [total_mkNew]; omega, hsel, ?_, rfl, ?_, ?_⟩
        · intro w hw
          have := mem_mkNew hw
          exact ⟨this.1, this.2.2.1, (genAll_fits _ _ _ this.2.1).1, this.2.2.2.2⟩
        · intro _; rw [total_mkNew]; omega
        · intro w hw hs hb hn
          have h1 := hskip w hw hs hb hn
          refine ⟨h1, ?_⟩
          intro n hn'
          have := (genAll_fits _ _ _ (mem_mkNew hn').2.1).2
          show (plotSize n.bl : Int) < w.size
          omega

/-- a failed size request creates nothing -/
theorem sizeRequest_error {k k' : K} {scope : WS → Bool} {dir : Nat} {t : Int} {e : Err}
    (h : k.sizeRequest scope dir t = (k', .error e)) : k' = k := by
  unfold K.sizeRequest at h
  simp only at h
  split at h
  · simp at h
  · split at h
    · simp at h; exact h.1.symm
    · split at h
      · simp at h; exact h.1.symm
      · simp at h

/-- a negative target selects nothing and creates nothing -/
theorem sizeRequest_neg (k : K) (scope : WS → Bool) (dir : Nat) {t : Int} (ht : t < 0) :
    k.sizeRequest scope dir t = (k, .ok ([], [])) := by
  have hf : ∀ l : List WS, fill l 0 t = ([], 0) := by
    intro l
    induction l with
    | nil => rfl
    | cons w r ih =>
      unfold fill
      have := size_nonneg w
      rw [if_pos (by omega)]; exact ih
  unfold K.sizeRequest
  simp only [hf]
  have : fillFinished 0 t = true := by
    unfold fillFinished; have := minSize_pos; simp; right; omega
  simp [this]

/-! ### configuration by per-directory sizes -/

/-- total plot size of the spaces of one directory in a list -/
def totalIn (d : Nat) (l : List WS) : Int := total (l.filter (fun w => w.dir == d))

@[simp] theorem totalIn_nil (d : Nat) : totalIn d [] = 0 := rfl
theorem totalIn_append (d : Nat) (a b : List WS) : totalIn d (a ++ b) = totalIn d a + totalIn d b := by
  simp [totalIn, List.filter_append]

theorem totalIn_same {d : Nat} {l : List WS} (h : ∀ w ∈ l, w.dir = d) : totalIn d l = total l := by
  unfold totalIn
  rw [List.filter_eq_self.2]
  intro w hw; simp [h w hw]

theorem totalIn_other {d d' : Nat} {l : List WS} (h : ∀ w ∈ l, w.dir = d') (hne : d' ≠ d) : totalIn d l = 0 := by
  unfold totalIn
  rw [List.filter_eq_nil_iff.2]
  · rfl
  · intro w hw; simp [h w hw, hne]

theorem addNew_filter_other {k : K} {new : List WS} {d d' : Nat} (h : ∀ w ∈ new, w.dir = d') (hne : d' ≠ d) :
    (k.addNew new).index.filter (fun w => w.dir == d) = k.index.filter (fun w => w.dir == d) := by
  have hnil : new.filter (fun w => w.dir == d) = [] := by
    rw [List.filter_eq_nil_iff]
    intro w hw; simp [h w hw, hne]
  simp only [K.addNew, List.filter_append, hnil, List.append_nil]

/-- the result of one entry of the by-path loop: spaces of that directory only, within the entry's size -/
theorem sizeRequest_dir {k k' : K} {d : Nat} {t : Int} {sel new : List WS}
    (h : k.sizeRequest (fun w => w.dir == d) d t = (k', .ok (sel, new))) :
    (∀ w ∈ sel ++ new, w.dir = d) ∧ k' = k.addNew new ∧ (∀ w ∈ sel, w ∈ k.index) ∧
    (0 ≤ t → total (sel ++ new) ≤ t ∧ t - total (sel ++ new) < minSize) ∧ (t < 0 → sel ++ new = []) := by
  by_cases ht : 0 ≤ t
  · obtain ⟨h1, h2, h3, h4, h5, _, _⟩ := sizeRequest_ok h ht
    refine ⟨?_, h5, fun w hw => (h3 w hw).1, fun _ => by simp only [total_append]; exact ⟨h1, h2⟩, fun hn => by omega⟩
    intro w hw
    rcases List.mem_append.1 hw with hw | hw
    · simpa using (h3 w hw).2
    · exact (h4 w hw).1
  · rw [sizeRequest_neg k _ _ (by omega)] at h
    simp only [Prod.mk.injEq, Except.ok.injEq] at h
    obtain ⟨rfl, rfl, rfl⟩ := h
    exact ⟨by simp, by simp [K.addNew], by simp, fun h0 => absurd h0 ht, fun _ => rfl⟩

/-- the by-path loop, per directory: what it adds for a directory named once is within that directory's size
and short of it by less than the smallest plot; directories not named get nothing -/
theorem pathLoop_ok (entries : List (Nat × Int)) (hnd : (entries.map (·.1)).Nodup) :
    ∀ (k k' : K) (sel0 created0 sel created : List WS),
    k.pathLoop entries sel0 created0 = (k', .ok (sel, created)) →
    (∃ delta, created = created0 ++ delta ∧ k' = k.addNew delta ∧ (∀ w ∈ delta, w ∈ sel ∧ w.dir ∈ entries.map (·.1))) ∧
    (∀ w ∈ sel, w ∈ sel0 ∨ ((w ∈ k.index ∨ w ∈ created) ∧ w.dir ∈ entries.map (·.1))) ∧
    ∀ d, (∀ t, (d, t) ∈ entries → ∃ X, totalIn d sel = totalIn d sel0 + X ∧
              (0 ≤ t → X ≤ t ∧ t - X < minSize) ∧ (t < 0 → X = 0)) ∧
         (d ∉ entries.map (·.1) → totalIn d sel = totalIn d sel0) := by
  induction entries with
  | nil =>
    intro k k' sel0 created0 sel created h
    simp only [K.pathLoop, Prod.mk.injEq, Except.ok.injEq] at h
    obtain ⟨rfl, rfl, rfl⟩ := h
    exact ⟨⟨[], by simp, by simp [K.addNew], by simp⟩, fun w hw => Or.inl hw, fun d => ⟨by simp, fun _ => rfl⟩⟩
  | cons e r ih =>
    obtain ⟨d', t'⟩ := e
    intro k k' sel0 created0 sel created h
    simp only [List.map_cons, List.nodup_cons] at hnd
    simp only [K.pathLoop] at h
    rcases hreq : k.sizeRequest (fun w => w.dir == d') d' t' with ⟨k1, (e | ⟨s, new⟩)⟩
    · simp [hreq] at h
    · simp only [hreq] at h
      obtain ⟨hdirs, hk1, hsidx, hpos, hneg⟩ := sizeRequest_dir hreq
      obtain ⟨⟨delta, hcr, hk', hdelta⟩, hselmem, hper⟩ := ih hnd.2 k1 k' _ _ sel created h
      refine ⟨⟨new ++ delta, by simp [hcr], ?_, ?_⟩, ?_, ?_⟩
      · subst hk1 hk'; simp [K.addNew, Nat.add_assoc]
      · intro w hw
        rcases List.mem_append.1 hw with hw | hw
        · refine ⟨?_, by simp [hdirs w (List.mem_append.2 (Or.inr hw))]⟩
          -- a new space of this entry is in the accumulated selection, which the rest of the loop only extends
          have hsub : ∀ (es : List (Nat × Int)) (kk kk' : K) (a c a' c' : List WS),
              kk.pathLoop es a c = (kk', .ok (a', c')) → ∀ x ∈ a, x ∈ a' := by
            intro es
            induction es with
            | nil => intro kk kk' a c a' c' hh x hx; simp only [K.pathLoop, Prod.mk.injEq, Except.ok.injEq] at hh; obtain ⟨_, rfl, _⟩ := hh; exact hx
            | cons e2 r2 ih2 =>
              obtain ⟨d2, t2⟩ := e2
              intro kk kk' a c a' c' hh x hx
              simp only [K.pathLoop] at hh
              rcases hr2 : kk.sizeRequest (fun w => w.dir == d2) d2 t2 with ⟨k2, (e | ⟨s2, n2⟩)⟩
              · simp [hr2] at hh
              · simp only [hr2] at hh
                exact ih2 _ _ _ _ _ _ hh x (by simp [hx])
          exact hsub r k1 k' _ _ sel created h w (by simp [hw])
        · exact ⟨(hdelta w hw).1, by simp [(hdelta w hw).2]⟩
      · intro w hw
        rcases hselmem w hw with h1 | ⟨h1, hd1⟩
        · rcases List.mem_append.1 h1 with h2 | h2
          · rcases List.mem_append.1 h2 with h3 | h3
            · exact Or.inl h3
            · exact Or.inr ⟨Or.inl (hsidx w h3), by simp [hdirs w (List.mem_append.2 (Or.inl h3))]⟩
          · exact Or.inr ⟨Or.inr (by rw [hcr]; simp [h2]), by simp [hdirs w (List.mem_append.2 (Or.inr h2))]⟩
        · refine Or.inr ⟨?_, by simp [hd1]⟩
          rcases h1 with h1 | h1
          · subst hk1
            simp only [K.addNew, List.mem_append] at h1
            rcases h1 with h1 | h1
            · exact Or.inl h1
            · exact Or.inr (by rw [hcr]; simp [h1])
          · exact Or.inr h1
      · intro d
        obtain ⟨hin, hout⟩ := hper d
        have hacc : totalIn d (sel0 ++ s ++ new) = totalIn d sel0 + totalIn d (s ++ new) := by
          rw [List.append_assoc, totalIn_append]
        constructor
        · intro t ht
          simp only [List.mem_cons, Prod.mk.injEq] at ht
          rcases ht with ⟨rfl, rfl⟩ | ht
          · -- this entry's directory: named once, the rest of the loop adds nothing for it
            have := hout hnd.1
            rw [this, hacc, totalIn_same hdirs]
            exact ⟨total (s ++ new), rfl, hpos, fun hn => by rw [hneg hn]; rfl⟩
          · have hne : d' ≠ d := by
              intro heq; subst heq
              exact hnd.1 (List.mem_map.2 ⟨(d', t), ht, rfl⟩)
            obtain ⟨X, hX, hrest⟩ := hin t ht
            refine ⟨X, ?_, hrest⟩
            rw [hX, hacc, totalIn_other hdirs hne]; omega
        · intro hd
          simp only [List.map_cons, List.mem_cons, not_or] at hd
          rw [hout hd.2, hacc, totalIn_other hdirs (fun h => hd.1 h.symm)]; omega

/-! ### the checks made before anything is created -/

theorem precheck_congr {k k1 : K} (entries : List (Nat × Int)) (hfree : k1.free = k.free) (hallow : k1.allowNew = k.allowNew)
    (hidx : ∀ d ∈ entries.map (·.1), k1.index.filter (fun w => w.dir == d) = k.index.filter (fun w => w.dir == d)) :
    k1.precheck entries = k.precheck entries := by
  induction entries with
  | nil => rfl
  | cons e r ih =>
    obtain ⟨d, t⟩ := e
    have hr := ih (fun d' hd' => hidx d' (by simp only [List.map_cons, List.mem_cons]; exact Or.inr hd'))
    have hd := hidx d (by simp)
    simp only [K.precheck, hd, hr, hallow, K.freeOf, hfree]

/-- with distinct directories, a request that passed the checks is carried out: the creation loop cannot fail -/
theorem pathLoop_no_error (entries : List (Nat × Int)) (hnd : (entries.map (·.1)).Nodup) :
    ∀ (k : K) (sel0 created0 : List WS), k.precheck entries = none →
    ∃ k' sel created, k.pathLoop entries sel0 created0 = (k', .ok (sel, created)) := by
  induction entries with
  | nil => intro k sel0 created0 _; exact ⟨k, sel0, created0, rfl⟩
  | cons e r ih =>
    obtain ⟨d, t⟩ := e
    intro k sel0 created0 hpre
    simp only [List.map_cons, List.nodup_cons] at hnd
    -- the head entry's request succeeds, and the rest passed its checks on the old index
    have key : (∃ k1 s new, k.sizeRequest (fun w => w.dir == d) d t = (k1, .ok (s, new)) ∧ k1 = k.addNew new ∧
        ∀ w ∈ new, w.dir = d) ∧ k.precheck r = none := by
      simp only [K.precheck] at hpre
      unfold K.sizeRequest
      simp only
      by_cases hfin : fillFinished (fill (candidates (k.index.filter fun w => w.dir == d)) 0 t).2 t = true
      · simp only [hfin, if_true] at hpre ⊢
        exact ⟨⟨k, _, [], rfl, by simp [K.addNew], by simp⟩, hpre⟩
      · simp only [hfin] at hpre ⊢
        by_cases ha : k.allowNew = true
        · simp only [ha] at hpre ⊢
          rcases hc : checkDisk (t - (fill (candidates (k.index.filter fun w => w.dir == d)) 0 t).2) (k.freeOf d) with _ | e
          · simp only [hc] at hpre
            simp only [Bool.not_true, Bool.false_eq_true, if_false]
            refine ⟨⟨_, _, _, rfl, rfl, ?_⟩, by simpa using hpre⟩
            intro w hw; exact (mem_mkNew hw).1
          · simp [hc] at hpre
        · simp [ha] at hpre
    obtain ⟨⟨k1, s, new, hreq, hk1, hnewdir⟩, hrest⟩ := key
    have hpre1 : k1.precheck r = none := by
      rw [precheck_congr r (k := k) (k1 := k1) (by subst hk1; rfl) (by subst hk1; rfl) ?_]
      · exact hrest
      · intro d' hd'
        subst hk1
        exact addNew_filter_other hnewdir (fun h => hnd.1 (h ▸ hd'))
    obtain ⟨k', sel, created, h⟩ := ih hnd.2 k1 (sel0 ++ s ++ new) (created0 ++ new) hpre1
    exact ⟨k', sel, created, by simp only [K.pathLoop, hreq]; exact h⟩

theorem reindex_files (k : K) (dirs : List Nat) : (k.reindex dirs).files = k.files := rfl
theorem reindex_nextOrd (k : K) (dirs : List Nat) : (k.reindex dirs).nextOrd = k.nextOrd := rfl

end MassVerif.Config
