/-
Helper lemmas for the HD / mnemonic models (C18): byte and digit arithmetic.
-/
import MassVerif.Model.Mnemonic
import MassVerif.Proofs.Codec

namespace MassVerif.HD
open MassVerif.Codec

theorem bytesToNat_cons (x : Nat) (r : Bytes) : bytesToNat (x :: r) = x * 256 ^ r.length + bytesToNat r := by
  unfold bytesToNat
  have key : ∀ (l : Bytes) (a : Nat), l.foldl (fun acc x => acc * 256 + x) a =
      a * 256 ^ l.length + l.foldl (fun acc x => acc * 256 + x) 0 := by
    intro l
    induction l with
    | nil => intro a; simp
    | cons y l ih =>
      intro a
      simp only [List.foldl_cons, List.length_cons]
      rw [ih (a * 256 + y), ih (0 * 256 + y)]
      rw [Nat.pow_succ, Nat.add_mul, Nat.add_mul]
      simp only [Nat.zero_mul, Nat.zero_add, Nat.mul_assoc]
      rw [Nat.mul_comm 256 (256 ^ l.length)]
      omega
  simp only [List.foldl_cons]
  rw [key r (0 * 256 + x)]
  simp

theorem bytesToNat_lt (b : Bytes) (hb : IsBytes b) : bytesToNat b < 256 ^ b.length := by
  induction b with
  | nil => simp [bytesToNat]
  | cons x r ih =>
    have hx : x < 256 := hb x (by simp)
    have hr := ih (fun y hy => hb y (List.mem_cons_of_mem _ hy))
    rw [bytesToNat_cons, List.length_cons, Nat.pow_succ]
    have : x * 256 ^ r.length ≤ 255 * 256 ^ r.length := Nat.mul_le_mul_right _ (by omega)
    omega

theorem natToBytes_length_le (n k : Nat) (h : n < 256 ^ k) : (natToBytes n).length ≤ k := by
  induction k generalizing n with
  | zero =>
    simp at h; subst h
    rw [natToBytes]; simp
  | succ k ih =>
    rw [natToBytes]
    by_cases hn : n = 0
    · simp [hn]
    · simp only [hn, dite_false, List.length_append, List.length_cons, List.length_nil]
      have := ih (n / 256) (by rw [Nat.pow_succ] at h; omega)
      omega

theorem bytesToNat_replicate_zero (k : Nat) (b : Bytes) :
    bytesToNat (List.replicate k 0 ++ b) = bytesToNat b := by
  induction k with
  | zero => simp
  | succ k ih =>
    rw [List.replicate_succ, List.cons_append, bytesToNat_cons, ih]
    simp

theorem bytesToNat_padLeft (k : Nat) (b : Bytes) : bytesToNat (padLeft k b) = bytesToNat b := by
  unfold padLeft; exact bytesToNat_replicate_zero _ _

/-- big-endian bytes are determined by their length and value -/
theorem bytes_eq_of_nat_eq (a b : Bytes) (ha : IsBytes a) (hb : IsBytes b) (hl : a.length = b.length)
    (hv : bytesToNat a = bytesToNat b) : a = b := by
  induction a generalizing b with
  | nil => cases b with
    | nil => rfl
    | cons _ _ => simp at hl
  | cons x r ih =>
    cases b with
    | nil => simp at hl
    | cons y s =>
      have hx : x < 256 := ha x (by simp)
      have hy : y < 256 := hb y (by simp)
      have har : IsBytes r := fun z hz => ha z (List.mem_cons_of_mem _ hz)
      have hbs : IsBytes s := fun z hz => hb z (List.mem_cons_of_mem _ hz)
      have hl' : r.length = s.length := by simpa using hl
      rw [bytesToNat_cons, bytesToNat_cons, hl'] at hv
      have h1 := bytesToNat_lt r har
      have h2 := bytesToNat_lt s hbs
      rw [hl'] at h1
      have hp : 0 < 256 ^ s.length := Nat.pow_pos (by omega)
      have hxy : x = y := by
        rcases Nat.lt_trichotomy x y with h | h | h
        · have : (x + 1) * 256 ^ s.length ≤ y * 256 ^ s.length := Nat.mul_le_mul_right _ h
          rw [Nat.add_mul] at this; omega
        · exact h
        · have : (y + 1) * 256 ^ s.length ≤ x * 256 ^ s.length := Nat.mul_le_mul_right _ h
          rw [Nat.add_mul] at this; omega
      subst hxy
      have : bytesToNat r = bytesToNat s := by omega
      rw [ih s har hbs hl' this]

theorem padLeft_isBytes (k : Nat) (b : Bytes) (hb : IsBytes b) : IsBytes (padLeft k b) := by
  intro x hx
  simp only [padLeft, List.mem_append, List.mem_replicate] at hx
  rcases hx with ⟨_, rfl⟩ | hx
  · omega
  · exact hb x hx

theorem padLeft_length (k : Nat) (b : Bytes) (h : b.length ≤ k) : (padLeft k b).length = k := by
  simp [padLeft]; omega

/-- padding the minimal bytes of a value back to the original length restores the bytes -/
theorem padLeft_natToBytes_bytesToNat (e : Bytes) (he : IsBytes e) :
    padLeft e.length (natToBytes (bytesToNat e)) = e := by
  have hlen := natToBytes_length_le _ _ (bytesToNat_lt e he)
  apply bytes_eq_of_nat_eq
  · exact padLeft_isBytes _ _ (natToBytes_isBytes _)
  · exact he
  · exact padLeft_length _ _ hlen
  · rw [bytesToNat_padLeft, bytesToNat_natToBytes]

end MassVerif.HD

namespace MassVerif.Mnemonic
open MassVerif.Codec MassVerif.HD

theorem wordsOf_length (k n : Nat) : (wordsOf k n).length = k := by
  induction k generalizing n with
  | zero => rfl
  | succ k ih => simp [wordsOf, ih]

theorem wordsOf_lt (k n : Nat) : ∀ w ∈ wordsOf k n, w < 2048 := by
  induction k generalizing n with
  | zero => simp [wordsOf]
  | succ k ih =>
    intro w hw
    simp only [wordsOf, List.mem_append, List.mem_singleton] at hw
    rcases hw with hw | rfl
    · exact ih _ w hw
    · omega

theorem fromWords_append (a : List Nat) (w : Nat) : fromWords (a ++ [w]) = fromWords a * 2048 + w := by
  simp [fromWords, List.foldl_append]

theorem fromWords_wordsOf (k n : Nat) (h : n < 2048 ^ k) : fromWords (wordsOf k n) = n := by
  induction k generalizing n with
  | zero => simp at h; subst h; rfl
  | succ k ih =>
    simp only [wordsOf]
    rw [fromWords_append, ih (n / 2048) (by rw [Nat.pow_succ] at h; omega)]
    omega

/-- the loop of `addChecksum`: shift in the top `c` bits of the checksum byte -/
theorem addChecksum_fold (csb e : Nat) (c : Nat) (hc : c ≤ 8) :
    (List.range c).foldl (fun acc i => 2 * acc + (if csb / 2 ^ (7 - i) % 2 = 1 then 1 else 0)) e =
      e * 2 ^ c + csb / 2 ^ (8 - c) % 2 ^ c := by
  induction c with
  | zero => simp [Nat.mod_one]
  | succ c ih =>
    rw [List.range_succ, List.foldl_append, ih (by omega)]
    simp only [List.foldl_cons, List.foldl_nil]
    have h8 : 8 - c = (7 - c) + 1 := by omega
    have h7 : 8 - (c + 1) = 7 - c := by omega
    rw [h8, h7]
    have ht : csb / 2 ^ (7 - c + 1) = csb / 2 ^ (7 - c) / 2 := by
      rw [Nat.pow_succ, Nat.div_div_eq_div_mul]
    rw [ht]
    generalize csb / 2 ^ (7 - c) = t
    have hm : t % 2 ^ (c + 1) = t % 2 + 2 * (t / 2 % 2 ^ c) := by
      rw [Nat.pow_succ, Nat.mul_comm (2 ^ c) 2, Nat.mod_mul]
    rw [hm, Nat.pow_succ]
    have hb : (if t % 2 = 1 then 1 else 0) = t % 2 := by
      split <;> omega
    rw [hb]
    have : e * (2 ^ c * 2) = 2 * (e * 2 ^ c) := by
      rw [← Nat.mul_assoc, Nat.mul_comm]
    omega

end MassVerif.Mnemonic
